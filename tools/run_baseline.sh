#!/bin/sh
# Runs the repository's test suite exactly as the baseline does (guard off: there are no source hooks) and
# checks every BASELINE stable_pass test passed. usage: tools/run_baseline.sh [repo_dir] [-n N]
REPO="${1:-/repo}"
OUT="$(mktemp -d /tmp/verif-baseline-XXXX)"
cd "$REPO" && /venv/bin/python -m pytest -ra -q -p no:cacheprovider --timeout=900 --continue-on-collection-errors \
   ${2:+-n $2} --junitxml="$OUT/junit.xml" > "$OUT/log.txt" 2>&1
tail -3 "$OUT/log.txt"
python3 - "$OUT/junit.xml" <<'PY'
import json, sys, xml.etree.ElementTree as ET
b = json.load(open('/root/.vp/BASELINE.json'))
stable = set(b['stable_pass'])
res = {}
for tc in ET.parse(sys.argv[1]).getroot().iter('testcase'):
    name = f"{tc.get('classname')}::{tc.get('name')}"
    bad = any(c.tag in ('failure', 'error', 'skipped') for c in tc)
    res[name] = not bad
missing = [t for t in stable if t not in res]
failed = [t for t in stable if t in res and not res[t]]
print(f"stable_pass={len(stable)} passed={sum(1 for t in stable if res.get(t))} failed={len(failed)} missing={len(missing)}")
for t in failed[:30]: print("FAILED", t)
for t in missing[:10]: print("MISSING", t)
sys.exit(1 if failed or missing else 0)
PY
rc=$?
cp "$OUT/log.txt" /tmp/baseline_last_log.txt
rm -rf "$OUT"
exit $rc
