#!/bin/sh
# Runs the repository's test suite (hooks: none; guard off) and checks every BASELINE stable_pass test passed.
# usage: tools/run_baseline.sh [repo_dir]   (spark-parametrised tests are always-fail in the baseline and deselected for speed)
REPO="${1:-/repo}"
OUT="$(mktemp -d /tmp/verif-baseline-XXXX)"
cd "$REPO" && /venv/bin/python -m pytest -q -p no:cacheprovider --timeout=900 --continue-on-collection-errors \
   -n 12 -k "not spark" --junitxml="$OUT/junit.xml" > "$OUT/log.txt" 2>&1
tail -3 "$OUT/log.txt"
python3 - "$OUT/junit.xml" <<'PY'
import json, sys, xml.etree.ElementTree as ET
b = json.load(open('/root/.vp/BASELINE.json'))
stable = set(b['stable_pass'])
res = {}
for tc in ET.parse(sys.argv[1]).getroot().iter('testcase'):
    name = f"{tc.get('classname')}::{tc.get('name')}"
    bad = any(c.tag in ('failure', 'error', 'skipped') for c in tc)
    res[name] = not bad
missing = [t for t in stable if t not in res]
failed = [t for t in stable if t in res and not res[t]]
print(f"stable_pass={len(stable)} passed={sum(1 for t in stable if res.get(t))} failed={len(failed)} missing={len(missing)}")
for t in failed[:20]: print("FAILED", t)
for t in missing[:10]: print("MISSING", t)
sys.exit(1 if failed or missing else 0)
PY
rc=$?
rm -rf "$OUT"
exit $rc
