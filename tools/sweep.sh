#!/bin/sh
# tools/sweep.sh <tier> <seed> [ids...] : run checks sequentially without touching evidence; one summary line per check
TIER="$1"; SEED="$2"; shift 2
IDS="${*:-C01 C02 C04 C05 C06 C07 C08 C09 C10 C11 C12 C13 C14 C15 C16 C17 C18 C19 C20 C03}"
HERE="$(cd "$(dirname "$0")/.." && pwd)"
for id in $IDS; do
  [ -f "$HERE/checks/$(echo $id | tr 'A-Z' 'a-z').py" ] || continue
  t0=$(date +%s)
  VERIF_SEED=$SEED "$HERE/check" $id --tier $TIER --no-evidence > "/tmp/sweep_${TIER}_${SEED}_$id.log" 2>&1
  rc=$?
  echo "$id seed=$SEED tier=$TIER rc=$rc $(( $(date +%s) - t0 ))s $(grep -c '^VIOLATION' /tmp/sweep_${TIER}_${SEED}_$id.log) violations; $(grep -E 'INCONCLUSIVE|KNOWN-FINDING' /tmp/sweep_${TIER}_${SEED}_$id.log | cut -c1-160 | head -2 | tr '\n' ' ')"
done
