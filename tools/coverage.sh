#!/bin/sh
# tools/coverage.sh <outdir> <id> [<id> ...] : run the quick tier of the given checks with line coverage of cubed
# (development aid; evidence is not touched). Report: <outdir>/report.txt
OUT="$1"; shift
HERE="$(cd "$(dirname "$0")/.." && pwd)"
REPO="${VERIF_REPO:-/repo}"
mkdir -p "$OUT"
cat > "$OUT/coveragerc" <<RC
[run]
source = $REPO/cubed
omit = */tests/*,*/vendor/*,*/extensions/*,*/diagnostics/*
parallel = True
data_file = $OUT/data/cov
core = sysmon
[report]
show_missing = True
RC
mkdir -p "$OUT/data"
for id in "$@"; do
  COVERAGE_PROCESS_START="$OUT/coveragerc" PYTHONPATH="$HERE/tools/cov" "$HERE/check" "$id" --tier quick --no-evidence > "$OUT/$id.log" 2>&1
  echo "$id rc=$?"
done
cd "$OUT" && /venv/bin/python -m coverage combine --rcfile="$OUT/coveragerc" -q data >/dev/null 2>&1
/venv/bin/python -m coverage report --rcfile="$OUT/coveragerc" --data-file="$OUT/data/cov" > "$OUT/report.txt" 2>&1
tail -3 "$OUT/report.txt"
