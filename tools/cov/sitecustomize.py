# Development aid (not used by any registered check): line coverage of /repo/cubed under a check's workload,
# to find code the monitors never drive. Activated by tools/coverage.sh through COVERAGE_PROCESS_START.
import os

if os.environ.get("COVERAGE_PROCESS_START"):
    try:
        import coverage

        coverage.process_startup()
    except Exception as e:
        import sys

        print("coverage start failed", repr(e), file=sys.stderr)
