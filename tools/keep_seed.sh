#!/bin/sh
# tools/keep_seed.sh <worktree> <seed-id> : save a confirmed seeded change (patch, demo, notes) under seeded/<seed-id>/
WT="$1"; ID="$2"
HERE="$(cd "$(dirname "$0")/.." && pwd)"
mkdir -p "$HERE/seeded/$ID"
git -C "$WT" diff > "$HERE/seeded/$ID/patch.diff"
cp "$WT/demo.py" "$HERE/seeded/$ID/demo.py" 2>/dev/null
cp "$WT/MUTATION.md" "$HERE/seeded/$ID/MUTATION.md" 2>/dev/null
wc -l "$HERE/seeded/$ID/patch.diff"
