#!/bin/sh
# tools/run_seeds.sh [seed-id ...] : apply each seeded change to a scratch worktree of /repo HEAD and run the
# quick check of the property it breaks; expects exit 1 (VIOLATION). Scratch worktrees live under /tmp and are removed.
HERE="$(cd "$(dirname "$0")/.." && pwd)"
IDS="${*:-$(ls "$HERE/seeded")}"
for sid in $IDS; do
  meta="$HERE/seeded/$sid/meta.json"; patch="$HERE/seeded/$sid/patch.diff"
  [ -f "$patch" ] || continue
  prop=$(python3 -c "import json,sys; print(json.load(open('$meta'))['property'])" 2>/dev/null || echo "")
  checks=$(python3 -c "import json,sys; m=json.load(open('$meta')); print(' '.join(m.get('run_checks', [m['property']])))" 2>/dev/null)
  wt="/tmp/wt/seedrun_$sid"
  git -C /repo worktree remove --force "$wt" 2>/dev/null
  git -C /repo worktree add -q "$wt" HEAD || continue
  if ! (cd "$wt" && (git apply "$patch" 2>/dev/null || git apply -3 "$patch" 2>/dev/null)); then
    echo "$sid: patch does not apply to HEAD"; git -C /repo worktree remove --force "$wt"; continue
  fi
  for c in $checks; do
    VERIF_REPO="$wt" "$HERE/check" $c --tier quick --no-evidence > "/tmp/seedrun_${sid}_$c.log" 2>&1
    rc=$?
    echo "$sid -> $c: rc=$rc $(grep -c '^VIOLATION' /tmp/seedrun_${sid}_$c.log) violation lines; $(grep -E 'kind=' /tmp/seedrun_${sid}_$c.log | head -1 | cut -c1-140)"
  done
  git -C /repo worktree remove --force "$wt"
done
