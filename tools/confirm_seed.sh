#!/bin/sh
# tools/confirm_seed.sh <worktree> <seed-id> : confirm a sub-agent's change (demo fails with it, passes without it),
# then save patch/demo/notes under seeded/<seed-id>/ . The worktree keeps the change applied afterwards.
WT="$1"; ID="$2"
HERE="$(cd "$(dirname "$0")/.." && pwd)"
cd "$WT" || exit 2
git diff > /tmp/confirm_$ID.patch
[ -s /tmp/confirm_$ID.patch ] || { echo "no diff in $WT"; exit 2; }
timeout 900 /venv/bin/python demo.py > /tmp/confirm_${ID}_with.log 2>&1; with=$?
git checkout -q -- . 
timeout 900 /venv/bin/python demo.py > /tmp/confirm_${ID}_without.log 2>&1; without=$?
git apply /tmp/confirm_$ID.patch
echo "$ID: demo with change rc=$with, without rc=$without"
if [ "$with" != 0 ] && [ "$without" = 0 ]; then
  mkdir -p "$HERE/seeded/$ID"
  cp /tmp/confirm_$ID.patch "$HERE/seeded/$ID/patch.diff"
  cp demo.py "$HERE/seeded/$ID/demo.py"; cp MUTATION.md "$HERE/seeded/$ID/MUTATION.md" 2>/dev/null
  echo "saved to seeded/$ID"; tail -3 /tmp/confirm_${ID}_with.log
else
  echo "NOT CONFIRMED"; tail -5 /tmp/confirm_${ID}_with.log; tail -5 /tmp/confirm_${ID}_without.log
fi
