#!/usr/bin/env python3
"""tools/seed_meta.py <seed-id> <property> <caught_by comma list or -> <round> -- <change> -- <breaks> -- <needs>"""
import json, sys
sid, prop, caught, rnd = sys.argv[1:5]
rest = " ".join(sys.argv[5:]).split(" -- ")
rest = [r.strip(" -") for r in rest if r.strip(" -")]
change, breaks, needs = (rest + ["", "", ""])[:3]
caught_l = [] if caught == "-" else caught.split(",")
m = {
    "property": prop, "change": change, "breaks": breaks, "needs_to_manifest": needs, "seed_id": sid,
    "origin": f"independent sub-agent (round {rnd}) given only the property text and a scratch worktree, asked for a mechanism different from earlier rounds",
    "what_i_ran": [
        "tools/confirm_seed.sh: demo.py in the agent's worktree exits non-zero with the change and 0 without it (re-run by me)",
        "agent's full non-spark test run (see MUTATION.md); only load-flaky hypothesis-deadline/timing tests failed, identically on the unchanged tree",
        "VERIF_REPO=<scratch worktree at HEAD + patch> ./check <id> --tier quick --no-evidence",
    ],
    "run_checks": caught_l or [prop],
    "caught_by": caught_l,
}
json.dump(m, open(f"/verif/seeded/{sid}/meta.json", "w"), indent=1)
print("wrote", sid)
