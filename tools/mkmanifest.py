#!/usr/bin/env python3
"""Regenerates MANIFEST.json from the table below (only checks whose module exists are claimed)."""
import json, os, subprocess
HERE = os.path.dirname(os.path.dirname(os.path.abspath(__file__)))

CHECKS = {
 "C01": dict(level="exploration", technique="runtime monitoring: differential result oracle (NumPy shadow interpreter) over generated recipes on the real executors",
   text="Every generated expression is computed by the real cubed code on real executors and its result compared element-wise with an independent NumPy evaluation; held = no disagreement on the executions listed in the evidence. The generator also draws one array for both operands of matmul/tensordot/vecdot/outer, stack inputs with equal block counts but different chunk sizes, negative axes and zero counts, and the checks C01/C12/C17 share a bounded-exhaustive parameter sweep (1032 single-operation recipes enumerating axes, axis orders, index forms, reshape splits/merges, Array.blocks selections for 1-3 dimensions). Exploration is the right level: the input space is unbounded, so reach comes from generator diversity (shapes, chunkings, dtypes, compositions, executors), not enumeration.",
   note="Trusts NumPy as reference and the harness's own recipe interpreters; geometries beyond the generator's bounds and executors not installed (dask, lithops, ...) are not observed.", ref="3/C01"),
 "C02": dict(level="exploration", technique="runtime monitoring: differential oracle (same recipe computed unoptimised vs under each optimiser setting; integers exact, floats within 16 ulp) + read-back of requested arrays from storage",
   text="Each generated DAG is executed by the real code unoptimised and under default/multiple-input/legacy/fuse-all/fuse-only optimisers with random always/never-fuse subsets; requested arrays must be identical (floats within 16 ulp: NumPy's SIMD functions are not bit-reproducible across layouts) and present in storage. A third of the recipes also save a requested array with a lazy store/to_zarr into a path or an existing array of equal/finer/coarser/unrelated chunking and request a consumer of the stored array; the target is read back with plain zarr; a 'castchain' family draws single-input chains ending in a dtype-changing operation (what the legacy map fusion collapses). Held = no difference on the (recipe, optimiser) pairs listed.",
   note="Reference is cubed's own unoptimised run (a common-mode error in both is C01's business). Memory refusals under fusion-forcing optimisers are allowed by the property and not judged.", ref="3/C02"),
 "C03": dict(level="exploration", technique="runtime monitoring of allocations: tracemalloc around every task (one at a time under the harness executor, second run of each plan, excess re-measured up to 5 times), phase-resolved by wrapping zarr.Array.__getitem__/__setitem__, judged against the finalized plan's projected_mem",
   text="A table of 97 programs (each run at least twice per quick tier) covering every operation family at data-dominated chunk sizes, five geometries, three dtypes, fused/unfused, compressor None/default: every task's traced peak must stay within its operation's projected memory. Three open, mechanism-keyed findings (compressed storage buffers; previous block alive in multi-block reads; undeclared function temporaries) are matched by configuration + producing function + segment kind + ratio ceiling; two thirds of the budget run without a compressor where only the two narrower findings can match.",
   note="tracemalloc does not see C-level allocations inside codecs; an under-projection smaller than an operation's slack is invisible (maximum observed ratio per program is in the evidence).", ref="3/C03"),
 "C04": dict(level="exploration", technique="runtime monitoring at the admission boundary: wrapping executor entry counter + store tracer + work-directory snapshot around compute/store/to_zarr, judged against the finalized plan's own per-op projected memory at allowed = P-1, P, P+1; post-condition wrappers (icontract on fuse, hand-written on the varargs fuse_multiple) for fused projected memory",
   text="For generated programs under both optimiser settings and several reserved_mem values the budget is set just below, at and above the plan's own maximum projected memory; an over-budget plan must be refused with no executor entry, no store mutation and no new file (eager and lazy store forms included); a plan within budget must not get the memory error; the default optimiser must not turn a fitting plan into a non-fitting one; fused ops must report at least the memory of the ops they replace. 30% of the recipes end in f(b, b) and the budget at which the unoptimised plan just fits is probed as well.",
   note="P is taken from the plan cubed itself finalizes under that budget (plans whose shape depends on the budget are re-probed at their own boundary).", ref="3/C04"),
 "C05": dict(level="exploration", technique="runtime monitoring: attributed store-level trace (who wrote which chunk key) + block-write hook on zarr.Array.__setitem__, judged against the chunk grid read back from stored metadata",
   text="Every task of every generated plan runs one at a time under a harness executor that attributes each store write to its task; monitors check one writer task per stored chunk, whole-chunk write regions, and that every chunk of every produced array's grid was written. Two further workloads: store/to_zarr into user-supplied targets (existing arrays of any chunking, sharded, regions), and direct regular/irregular rechunks under budgets that need two or more copy stages.",
   note="Trusts the tracer's patching of zarr LocalStore/MemoryStore and zarr.Array.__setitem__ to see every write (cross-checked: chunk sets == grid size on the unchanged tree). User-supplied store targets reuse C11's call generator.", ref="3/C05"),
 "C06": dict(level="fault_enumeration", technique="runtime monitoring under adversarial schedules: reversed/shuffled task order, every single duplicated task at three positions, duplicate multisets, fresh-process task execution; oracle = stored content and results of the reference schedule",
   text="For each generated plan the schedule space {order} x {which task is repeated, where} is enumerated (exhaustively for plans <= 14 tasks, sampled above) on the real task functions; every produced stored array and every result must equal the reference schedule's, and rewrites of a chunk must carry identical bytes.",
   note="Tasks run sequentially in the harness executor (concurrency itself is C07's subject). Intermediate data is wiped between schedules.", ref="3/C06"),
 "C07": dict(level="exploration", technique="runtime monitoring: store-level event trace with timestamps under the real executors (threads, processes via sitecustomize-instrumented workers, single-threaded) with seeded write-latency injection; happens-before oracle over (call, return) times",
   text="Real executors run generated DAGs under compute_arrays_in_parallel on/off, batch sizes and worker counts while every chunk set is delayed by a seeded latency at the store coroutine; no read of a produced array may be called before the first write of that chunk - or of any chunk of that array - returned, or before all arrays were created. Each shard also runs 'wide' plans whose operations have 1050-1500 tasks in flight at once with slow tail writes. Held on the interleavings actually produced (count reported); 'all interleavings' is restated as those observed.",
   note="Clock: time.monotonic in all processes. Interleavings not produced by the injected delays are not judged. Shown to fire (243 violations in one quick run) when topological generations are merged.", ref="3/C07"),
 "C08": dict(level="fault_enumeration", technique="runtime monitoring on virtual time: the real async_map_unordered driven by scripted futures (outcome and completion time per (input, submission), simultaneous completions in both handling orders); invariants on deliveries/submissions/raises; plus fault-injected retry wrapper and end-to-end storage faults",
   text="All single-special-input scenarios over n in {0,1,2,3,10,11,12,13,25} (sampled scenarios also use 1001-2600 inputs) x use_backups x batch sizes x original/backup outcomes are enumerated (pairs in thorough, random triples sampled); the scheduler must deliver each input once, never drop or double-deliver, raise only an input's own error when no twin succeeded or is pending, submit at most twice, never hang (virtual-time bound). Retry budget checked on the real thread pool wrapper and end to end with OSError injected at a chunk read.",
   note="'Never hangs' is restated as bounded virtual time + the loop never idling with work outstanding. The end-to-end budget is checked on ThreadsExecutor and (since fix 4cf1bdb) ProcessesExecutor.", ref="3/C08"),
 "C09": dict(level="fault_enumeration", technique="runtime monitoring with injected crashes at every task boundary and every data-chunk write (store tracer raises), then compute(resume=True) on real executors under the store tracer and a recording callback; real os._exit crashes resumed from a fresh process are sampled",
   text="For each small program (40% of them saving their requested arrays, and sometimes an intermediate, to user paths with lazy store/to_zarr) every crash point at task and chunk-write granularity is enumerated (sampled above the cap); the resumed run must refuse up front or reproduce the uninterrupted values, must not delete or change any chunk file that existed after the crash, must not re-execute operations that had completed (except create-arrays / 0-d outputs) and must not skip incomplete ones.",
   note="Injected crashes are Python exceptions raised at the store boundary; true process death is exercised by the os._exit variant. Tasks are assumed deterministic (C06).", ref="3/C09"),
 "C10": dict(level="exploration", technique="runtime monitoring of API histories: a NumPy shadow of a pool of related lazy arrays is kept alongside random sequences of derive/compute/store/to_zarr/re-compute/config-change calls; after every step sampled members are computed and compared, and directory digests of inputs and of earlier store targets are re-checked",
   text="Histories exercise the real API in arbitrary order, in particular storing arrays that other pool members were derived from, lazily and eagerly, into new and existing targets, and computing with resume/optimisation/executor variations (incl. the motif compute / compute(resume) / store / compute(resume)); held = every probe equalled the shadow and no input or earlier target changed, on the histories listed.",
   note="Values via NumPy shadow; 'unchanged' via blake2 digests of every file of a directory. Explicit refusals (ValueError/TypeError/NotImplementedError) while deriving or storing are allowed.", ref="3/C10"),
 "C11": dict(level="exploration", technique="runtime monitoring: sentinel-prefilled targets read back with plain zarr and compared with a NumPy paste model; store trace inspected for writes before a rejection",
   text="The call-shape matrix (source kind x target kind x region kind incl. misaligned, wrong-shape and overhanging regions, and aligned regions spelled with open ends, negative bounds, an explicit step of 1 or - to be refused up front - a step of 2 x store/to_zarr x eager/lazy x pair lists x executor) is sampled with random geometry in each cell; 30% of the calls compute the source before storing it; every accepted call must leave exactly 'sentinel with the source pasted into the region' in every target; a rejected call must not have written to the target, and a call must not fail after the executor was entered.",
   note="Sentinel value must not occur in source data (harness-controlled). Targets are local directory stores.", ref="3/C11"),
 "C12": dict(level="exploration", technique="runtime monitoring: block-write hook (value shape vs region shape for every block written by every task) + declared-vs-computed-vs-stored metadata comparison",
   text="All block writes of generated plans (unoptimised so that every intermediate is written, and optimised) are observed at zarr.Array.__setitem__; a value whose shape differs from its region is a silent broadcast. Declared shape/dtype/chunks are compared with the computed result and with the backing Zarr array's metadata.",
   note="Hook sees writes in the client process (single-threaded and threads executors).", ref="3/C12"),
 "C13": dict(level="exploration", technique="runtime monitoring: recording Callback on the real executors, judged against the finalized plan delivered with the compute-start event and len(pipeline.mappable)",
   text="For every operation of every generated plan: advertised num_tasks == length of its task list == sum of task-end notifications; exactly one start/end per operation and per computation, in order; on single-threaded, threads (batching, compute_arrays_in_parallel) and processes.",
   note="Callbacks are observed in the client process; executors other than the three local ones are not installed.", ref="3/C13"),
 "C14": dict(level="exploration", technique="runtime contracts (icontract post-conditions) on the real rechunk planners, rebound on every module that imported them, with an evaluation counter; plus end-to-end rechunks under small allowed_mem with the store-level single-writer/whole-chunk monitors and a NumPy comparison",
   text="Random geometries (1-3 dims, sizes rich in primes/powers, transposing patterns under tight budgets, item sizes 1-16, min_mem/max_mem from tight to invalid) and the bounded-exhaustive sweep of all small 1-D/2-D geometries are fed to both planners; every returned plan must chain, fit max_mem in every read/intermediate/write chunk, stay inside [1, dim], have intermediate = min(read, write) and line up with the chunks it writes; any exception other than ValueError/NotImplementedError is a violation. End-to-end rechunks run under Specs with and without reserved_mem; a request the planner accepts but the memory check refuses is judged differentially against the same net budget with reserved_mem=0. Termination = <= MAX_STAGES stages + watchdog.",
   note="'The planner always terminates' is restated as a step bound plus a wall-clock watchdog whose firing is inconclusive. The sweep is exhaustive only for the stated tiny geometries.", ref="3/C14"),
 "C15": dict(level="exploration", technique="runtime monitoring over symbolic storage: the real blockwise/general_blockwise/apply_blockwise/fuse_multiple code runs on fake arrays whose blocks are terms; block functions record what they received (array, coordinates, position, block/list/iterator); oracles: independent index-algebra reference and the unfused run",
   text="Index expressions (<= 4 symbols, <= 3 arguments, 30% with one array under two different index expressions, block counts 1-3 with per-argument broadcasting, new axes, contractions) are executed block by block through the real primitive and compared with a reference written from the design notes; fusion DAGs to depth 3 over seven key-function kinds are fused the way the optimiser does (can_fuse_multiple_primitive_ops + fuse_multiple) and compared with the unfused run term by term, including container kinds.",
   note="Symbolic blocks exercise addressing and structure, not numerics. Thorough enumerates all expressions with <= 3 symbols and <= 2 arguments.", ref="3/C15"),
 "C16": dict(level="exploration", technique="runtime monitoring: store tracer (no set/delete/data get), work-directory snapshot and an execution-attempt counter on FinalizedPlan.execute while every public callable is invoked and results are planned, visualised and inspected; documented triggers asserted to execute",
   text="The public surface found by introspection is exercised through the recipe generator and a direct-call table (incl. plans of rechunks with rectilinear intermediates under tight memory); any store write, data read, new file or execution attempt during build/plan/visualize/inspect is a violation; a public callable never exercised makes the run inconclusive.",
   note="take()/indexing with a cubed array, compute, eager store/to_zarr and scalar/array conversions are the documented triggers and are checked to be triggers.", ref="3/C16"),
 "C17": dict(level="exploration", technique="runtime monitoring: exception type and phase (build / plan / after executor entry, decided by a wrapping executor's entry counter) for recipes NumPy can evaluate",
   text="Generated expressions biased to unsupported corners are built, planned and executed; any exception must be ValueError/TypeError/NotImplementedError/IndexError raised before the executor is entered. Held = no other type and no mid-run failure on the runs listed, apart from the open known finding about zero-length dimensions (half of the budget cannot reach it).",
   note="Fault-free runs only. Exceptions with no cubed frame during recipe construction are harness errors (inconclusive).", ref="3/C17"), "C18": dict(level="exploration", technique="runtime monitoring: every multi-array public entry point called with arrays whose Specs differ in exactly one field (both argument orders), outcome and returned plans inspected; icontract post-condition on convert_to_bytes against an exact Fraction parser; plan budgets compared with the Spec",
   text="Entry points x 7 spec fields x 2 orders are enumerated completely every run (the table is cross-checked against signature introspection of the public namespaces); arrays that take their Spec from cubed.config (8 fields differing alone x both creation orders) are checked the same way and against the configured values; spec-lifetime histories (a distinct Spec equal to a long-lived one is combined with it, dropped and garbage-collected, then a differing Spec is created and combined, 12 rounds per entry point x field) must be refused every time; tens of thousands of size literals (realistic and extreme strata, malformed and non-whole ones) are parsed by the real code and by an exact reference.",
   note="Entry-point enumeration is complete for the functions listed in the evidence; literal space is sampled. Functions allowed to accept (broadcast_arrays, meshgrid, take/index with an array) are checked not to combine both inputs in any returned plan.", ref="3/C18"),
 "C19": dict(level="exploration", technique="runtime monitoring: differential outcomes (accepted / type+phase of refusal / values) of one recipe under resource-configuration variants, compared pairwise with the explicit-default variant, plus NumPy",
   text="Every generated expression is built and computed under the global default config (spec=None), an explicit equal Spec, another work_dir, an intermediate_store, compressor None/explicit, reserved_mem 0, executor named in the Spec and a larger allowed_mem; acceptance and bit-exact values must agree. Memory-tight rechunks with rectilinear intermediate grids are additionally computed with threads and processes named in the Spec, and fusion trees are computed under Specs with the same memory for array data but different reserves (allowed = D + R, reserved = R) at budgets D where the plan is tight.",
   note="Allowed memory is ample in the recipe part (so admission never differs legitimately) and equal across variants in the executor matrix; machine-memory checks of the threads executor are kept satisfiable.", ref="3/C19"),
 "C20": dict(level="exploration", technique="runtime monitoring across processes: arrays built in a child process are shipped with cloudpickle and computed/combined in a receiver whose name counters are set to chosen values; NumPy oracle",
   text="Shipped arrays are computed alone, after a same-process round trip, as left and right operand with locally built arrays, and with arrays derived from themselves, for receivers that have created 0..k arrays (names overlapping the child's or beyond them). The open finding (name collisions) is matched only when names really coincide; the disjoint stratum cannot reach it.",
   note="Receiver history emulated by setting cubed's per-process counters; child and receiver share a filesystem.", ref="3/C20"),
}

def main():
    checks = []
    for pid, c in sorted(CHECKS.items()):
        if not os.path.exists(os.path.join(HERE, "checks", pid.lower() + ".py")):
            continue
        checks.append({
            "property_id": pid,
            "quick_cmd": f"./check {pid} --tier quick",
            "thorough_cmd": f"./check {pid} --tier thorough",
            "evidence_file": f"evidence/{pid}.json",
            "replay_cmd_template": f"./check {pid} --replay {{path}}",
            "engine": "vlib",
            "level_claimed": {"category": c["level"], "text": c["text"], "design_ref": "DESIGN.md section " + c["ref"]},
            "level_note": c["note"],
            "technique": c["technique"],
        })
    claimed = {c["property_id"] for c in checks}
    na = []
    for line in open(os.path.join(HERE, "properties.jsonl")):
        pid = json.loads(line)["id"]
        if pid not in claimed:
            na.append({"property_id": pid, "reason": "check under construction in this session; not claimed until its monitor has been run silent on the unchanged tree (technique applies; see DESIGN.md)"})
    try:
        commits = subprocess.run(["git", "-C", "/repo", "log", "--format=%h %s", "--grep=^verif-hook"], capture_output=True, text=True).stdout.split("\n")
        commits = [c.split()[0] for c in commits if c.strip()]
    except Exception:
        commits = []
    m = {
        "version": 1,
        "setup_cmd": "sh ./setup.sh",
        "hooks": {
            "guard": "CUBED_VERIF",
            "enable": "no source hooks in /repo: every observation point is patched from the harness at run time (zarr store classes, zarr.Array.__setitem__, executor/callback interfaces, module attributes); the guard name is reserved and unused",
            "baseline_off_cmd": "cd /repo && /venv/bin/python -m pytest -ra -q -p no:cacheprovider --timeout=900 --continue-on-collection-errors",
            "source_commits": commits,
            "add_only": True,
        },
        "engines": [{"name": "vlib", "path": "vlib/", "serves_properties": sorted(claimed),
                     "kind_free_text": "Python runtime-monitoring harness: store tracer with task attribution and fault injection, adversarial/wrapping executors, block-write hook, tracemalloc monitor, virtual-time asyncio loop, icontract post-conditions, NumPy shadow interpreter, sharded driver"}],
        "checks": checks,
        "notes": "Runtime monitoring only. ./check <id> --tier quick|thorough; exit 0 held / 1 VIOLATION / 2 INCONCLUSIVE. Known findings: known_findings.json (never written at run time).",
        "not_applicable": na,
    }
    with open(os.path.join(HERE, "MANIFEST.json"), "w") as f:
        json.dump(m, f, indent=1)
    print("claimed:", sorted(claimed))

main()
