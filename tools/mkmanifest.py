#!/usr/bin/env python3
"""Regenerates MANIFEST.json from the table below (only checks whose module exists are claimed)."""
import json, os, subprocess
HERE = os.path.dirname(os.path.dirname(os.path.abspath(__file__)))

CHECKS = {
 "C01": dict(level="exploration", technique="runtime monitoring: differential result oracle (NumPy shadow interpreter) over generated recipes on the real executors",
   text="Every generated expression is computed by the real cubed code on real executors and its result compared element-wise with an independent NumPy evaluation; held = no disagreement on the executions listed in the evidence. Exploration is the right level: the input space is unbounded, so reach comes from generator diversity (shapes, chunkings, dtypes, compositions, executors), not enumeration.",
   note="Trusts NumPy as reference and the harness's own recipe interpreters; geometries beyond the generator's bounds and executors not installed (dask, lithops, ...) are not observed.", ref="3/C01"),
}

def main():
    checks = []
    for pid, c in sorted(CHECKS.items()):
        if not os.path.exists(os.path.join(HERE, "checks", pid.lower() + ".py")):
            continue
        checks.append({
            "property_id": pid,
            "quick_cmd": f"./check {pid} --tier quick",
            "thorough_cmd": f"./check {pid} --tier thorough",
            "evidence_file": f"evidence/{pid}.json",
            "replay_cmd_template": f"./check {pid} --replay {{path}}",
            "engine": "vlib",
            "level_claimed": {"category": c["level"], "text": c["text"], "design_ref": "DESIGN.md section " + c["ref"]},
            "level_note": c["note"],
            "technique": c["technique"],
        })
    claimed = {c["property_id"] for c in checks}
    na = []
    for line in open(os.path.join(HERE, "properties.jsonl")):
        pid = json.loads(line)["id"]
        if pid not in claimed:
            na.append({"property_id": pid, "reason": "check under construction in this session; not claimed until its monitor has been run silent on the unchanged tree (technique applies; see DESIGN.md)"})
    try:
        commits = subprocess.run(["git", "-C", "/repo", "log", "--format=%h %s", "--grep=^verif-hook"], capture_output=True, text=True).stdout.split("\n")
        commits = [c.split()[0] for c in commits if c.strip()]
    except Exception:
        commits = []
    m = {
        "version": 1,
        "setup_cmd": "sh ./setup.sh",
        "hooks": {
            "guard": "CUBED_VERIF",
            "enable": "no source hooks in /repo: every observation point is patched from the harness at run time (zarr store classes, zarr.Array.__setitem__, executor/callback interfaces, module attributes); the guard name is reserved and unused",
            "baseline_off_cmd": "cd /repo && /venv/bin/python -m pytest -ra -q -p no:cacheprovider --timeout=900 --continue-on-collection-errors",
            "source_commits": commits,
            "add_only": True,
        },
        "engines": [{"name": "vlib", "path": "vlib/", "serves_properties": sorted(claimed),
                     "kind_free_text": "Python runtime-monitoring harness: store tracer with task attribution and fault injection, adversarial/wrapping executors, block-write hook, tracemalloc monitor, virtual-time asyncio loop, icontract post-conditions, NumPy shadow interpreter, sharded driver"}],
        "checks": checks,
        "notes": "Runtime monitoring only. ./check <id> --tier quick|thorough; exit 0 held / 1 VIOLATION / 2 INCONCLUSIVE. Known findings: known_findings.json (never written at run time).",
        "not_applicable": na,
    }
    with open(os.path.join(HERE, "MANIFEST.json"), "w") as f:
        json.dump(m, f, indent=1)
    print("claimed:", sorted(claimed))

main()
