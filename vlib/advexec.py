"""Executors used by the monitors.

SeqExecutor  - my own sequential executor over cubed's public executor contract, with a schedule
               policy (task order, duplicates, crash points, fresh-process execution) and per-task
               hooks; sets the task contextvar so store events are attributed.
Wrap         - wraps a *real* cubed executor: DAG copy whose pipeline functions are traced wrappers
               (task attribution), entry counter ("did execution start?"). Scheduling untouched.
"""
from __future__ import annotations

import dataclasses
import os
import random
import subprocess
import sys
import tempfile
import threading

from cubed.runtime.pipeline import visit_nodes
from cubed.runtime.types import DagExecutor, TaskEndEvent
from cubed.runtime.utils import (
    handle_operation_end_callbacks,
    handle_operation_start_callbacks,
)

from vlib.storetrace import CURRENT_TASK


class Crash(Exception):
    """Injected crash (harness-made, not a cubed failure)."""


def _item_key(m):
    try:
        if isinstance(m, (list, tuple)):
            return tuple(int(x) for x in m)
    except Exception:
        pass
    return repr(m)[:80]


class TracedFn:
    """Picklable wrapper around a pipeline function: sets the task contextvar around the call."""

    def __init__(self, fn, opname):
        self.fn = fn
        self.opname = opname

    def __call__(self, m, **kw):
        tok = CURRENT_TASK.set((self.opname, _item_key(m)))
        try:
            return self.fn(m, **kw)
        finally:
            CURRENT_TASK.reset(tok)


def traced_dag(dag):
    """Copy of dag whose pipeline functions carry task attribution."""
    dag = dag.copy()
    for n, d in dag.nodes(data=True):
        p = d.get("pipeline")
        if p is not None:
            d["pipeline"] = dataclasses.replace(p, function=TracedFn(p.function, n))
    return dag


class Wrap(DagExecutor):
    def __init__(self, inner, **kwargs):
        super().__init__(**kwargs)
        self.inner = inner
        self.entries = 0
        self.dags = []

    @property
    def name(self):
        return "wrap:" + self.inner.name

    def execute_dag(self, dag, **kwargs):
        self.entries += 1
        self.dags.append(dag)
        return self.inner.execute_dag(traced_dag(dag), **kwargs)


class SeqExecutor(DagExecutor):
    """Sequential executor with an adversarial schedule policy.

    policy keys (all optional):
      order:        'fwd' | 'rev' | 'shuffle'      order of each operation's tasks
      seed:         int                             for shuffle / duplicate choice
      dup_now:      set of (op, item)               run the task twice in a row
      dup_after_op: set of (op, item)               run again after its operation completed
      dup_at_end:   set of (op, item)               run again after all operations ran
      crash_before: int                             raise Crash before the k-th task (0-based, global)
      fresh_process: bool                           run every task in a fresh spawned interpreter
      task_hook:    callable(opname, item, thunk)   runs the task (memory monitor); default calls thunk()
    """

    def __init__(self, policy=None, **kwargs):
        super().__init__(**kwargs)
        self.policy = policy or {}
        self.entries = 0
        self.executed = []  # (op, item) in execution order
        self.ops_run = []

    @property
    def name(self):
        return "verif-seq"

    def _run(self, name, pipeline, m):
        item = _item_key(m)
        hook = self.policy.get("task_hook")

        def thunk():
            if self.policy.get("fresh_process"):
                return run_in_fresh_process(pipeline.function, m, pipeline.config, name)
            tok = CURRENT_TASK.set((name, item))
            try:
                return pipeline.function(m, config=pipeline.config)
            finally:
                CURRENT_TASK.reset(tok)

        self.executed.append((name, item))
        if hook is not None:
            return hook(name, item, thunk)
        return thunk()

    def execute_dag(self, dag, callbacks=None, spec=None, compute_id=None, **kwargs):
        self.entries += 1
        pol = self.policy
        rng = random.Random(pol.get("seed", 0))
        k = 0
        crash_before = pol.get("crash_before")
        at_end = []
        for name, node in visit_nodes(dag):
            handle_operation_start_callbacks(callbacks, name)
            self.ops_run.append(name)
            pipeline = node["pipeline"]
            items = list(pipeline.mappable)
            order = pol.get("order", "fwd")
            if order == "rev":
                items = items[::-1]
            elif order == "shuffle":
                rng.shuffle(items)
            after_op = []
            for m in items:
                if crash_before is not None and k >= crash_before:
                    raise Crash(f"injected crash before task {k}")
                k += 1
                result = self._run(name, pipeline, m)
                key = (name, _item_key(m))
                if key in pol.get("dup_now", ()):
                    self._run(name, pipeline, m)
                if key in pol.get("dup_after_op", ()):
                    after_op.append(m)
                if key in pol.get("dup_at_end", ()):
                    at_end.append((name, pipeline, m))
                if callbacks is not None:
                    event = TaskEndEvent(name=name, result=result)
                    for cb in callbacks:
                        cb.on_task_end(event)
            for m in after_op:
                self._run(name, pipeline, m)
            handle_operation_end_callbacks(callbacks, name)
        if crash_before is not None and k == crash_before:
            # crash point after the very last task, before compute returns
            raise Crash(f"injected crash after last task {k}")
        for name, pipeline, m in at_end:
            self._run(name, pipeline, m)


_CHILD = r"""
import sys, cloudpickle
sys.path[:0] = {path!r}
with open({fn!r}, 'rb') as f:
    func, item, config = cloudpickle.load(f)
func(item, config=config)
"""


def run_in_fresh_process(function, m, config, opname="task"):
    """Execute one task in a fresh interpreter from its cloudpickle form (what a remote worker
    does). The child has no state from this process: no name counters, no caches."""
    import cloudpickle

    workdir = os.environ.get("VERIF_WORKDIR") or tempfile.gettempdir()
    fd, fn = tempfile.mkstemp(prefix="task-", suffix=".pkl", dir=workdir)
    with os.fdopen(fd, "wb") as f:
        cloudpickle.dump((function, m, config), f)
    code = _CHILD.format(path=[p for p in sys.path if p], fn=fn)
    env = dict(os.environ)
    env.pop("VERIF_TRACE_FILE", None)
    try:
        r = subprocess.run([sys.executable, "-c", code], capture_output=True, text=True, timeout=300, env=env)
    finally:
        try:
            os.unlink(fn)
        except OSError:
            pass
    if r.returncode != 0:
        raise RuntimeError(f"fresh-process task {opname} {m} failed: {r.stderr[-2000:]}")
    return None


class EntryCounter(threading.local):
    pass
