"""Store-level tracer with task attribution and fault/latency injection.

Patches the async methods of zarr.storage.LocalStore / MemoryStore at class level. Every call is
recorded at the store boundary: call time before invoking, return time after the reply, both from
time.monotonic() (CLOCK_MONOTONIC: comparable across worker processes on Linux).

The tracer is also the injection point: TRACE.injector(phase, ev) may return a delay in seconds
(awaited with asyncio.sleep at the store coroutine = a real suspension point) or raise.
"""
from __future__ import annotations

import asyncio
import contextvars
import hashlib
import json
import os
import re
import threading
import time

CURRENT_TASK: contextvars.ContextVar = contextvars.ContextVar("verif_task", default=None)

_DATA_RE = re.compile(r"^(?:(.*)/)?c(?:/(\d+(?:/\d+)*))?$")
_META_RE = re.compile(r"^(?:(.*)/)?(zarr\.json|\.zarray|\.zattrs|\.zgroup|\.zmetadata)$")


def classify_key(key: str):
    """-> ('data', array_path, coords tuple) | ('meta', array_path, filename) | ('other', key, None)"""
    m = _META_RE.match(key)
    if m:
        return ("meta", m.group(1) or "", m.group(2))
    m = _DATA_RE.match(key)
    if m:
        coords = tuple(int(x) for x in m.group(2).split("/")) if m.group(2) else ()
        return ("data", m.group(1) or "", coords)
    return ("other", key, None)


def drain(timeout=10.0):
    """Wait until zarr's IO event loop has no unfinished coroutine: when a store call raises inside a
    multi-chunk read/write, its sibling chunk operations keep running after the exception has reached
    the caller; without this their events would be attributed to whatever is traced next."""
    try:
        import zarr.core.sync as zs

        loop = zs.loop[0]
    except Exception:
        return True
    if loop is None or not loop.is_running():
        return True
    t0 = time.time()
    quiet = 0
    while time.time() - t0 < timeout:
        try:
            busy = any(not t.done() for t in asyncio.all_tasks(loop))
        except RuntimeError:
            busy = True
        quiet = 0 if busy else quiet + 1
        if quiet >= 2:
            return True
        time.sleep(0.002)
    return False


class Trace:
    def __init__(self):
        self.lock = threading.Lock()
        self.events = []
        self.enabled = False
        self.seq = 0
        self.injector = None
        self.sink = None  # file object for cross-process JSONL
        self.digest = True

    def reset(self):
        with self.lock:
            self.events = []
            self.seq = 0

    def start(self, injector=None, digest=True):
        self.reset()
        self.injector = injector
        self.digest = digest
        self.enabled = True

    def stop(self):
        drain()
        self.enabled = False
        self.injector = None
        with self.lock:
            ev = self.events
            self.events = []
        return ev

    def snapshot(self):
        with self.lock:
            return list(self.events)

    def record(self, ev):
        with self.lock:
            self.seq += 1
            ev["seq"] = self.seq
            self.events.append(ev)
            if self.sink is not None:
                self.sink.write(json.dumps(ev, default=str) + "\n")
                self.sink.flush()


TRACE = Trace()
_installed = False


class paused:
    """Context manager: the harness's own store traffic (e.g. writing an input array) is not recorded."""

    def __enter__(self):
        self.was = TRACE.enabled
        TRACE.enabled = False

    def __exit__(self, *a):
        TRACE.enabled = self.was


def _root_of(store):
    r = getattr(store, "root", None)
    if r is not None:
        return str(r)
    return f"mem:{id(store):x}"


def _mk_event(store, op, key):
    return {
        "pid": os.getpid(),
        "tid": threading.get_ident(),
        "root": _root_of(store),
        "key": key,
        "op": op,
        "task": CURRENT_TASK.get(),
        "tc": time.monotonic(),
    }


def _digest(value):
    try:
        b = value.to_bytes()
    except Exception:
        try:
            b = bytes(value)
        except Exception:
            return None, None
    return len(b), hashlib.blake2b(b, digest_size=8).hexdigest()


def _wrap_get(orig):
    async def get(self, key, *a, **kw):
        if not TRACE.enabled:
            return await orig(self, key, *a, **kw)
        ev = _mk_event(self, "get", key)
        inj = TRACE.injector
        if inj is not None:
            try:
                d = inj("before", ev)
            except BaseException as e:
                ev["tr"] = time.monotonic()
                ev["err"] = "injected:" + type(e).__name__
                TRACE.record(ev)
                raise
            if d:
                await asyncio.sleep(d)
        try:
            res = await orig(self, key, *a, **kw)
        except BaseException as e:
            ev["tr"] = time.monotonic()
            ev["err"] = type(e).__name__
            TRACE.record(ev)
            raise
        ev["tr"] = time.monotonic()
        ev["hit"] = res is not None
        if res is not None and TRACE.digest and not a and not kw.get("byte_range"):
            ev["n"], ev["dig"] = _digest(res)
        TRACE.record(ev)
        return res

    return get


def _wrap_set(orig, opname):
    async def set(self, key, value, *a, **kw):
        if not TRACE.enabled:
            return await orig(self, key, value, *a, **kw)
        ev = _mk_event(self, opname, key)
        if TRACE.digest:
            ev["n"], ev["dig"] = _digest(value)
        inj = TRACE.injector
        if inj is not None:
            try:
                d = inj("before", ev)
            except BaseException as e:
                ev["tr"] = time.monotonic()
                ev["err"] = "injected:" + type(e).__name__
                TRACE.record(ev)
                raise
            if d:
                await asyncio.sleep(d)
        try:
            res = await orig(self, key, value, *a, **kw)
        except BaseException as e:
            ev["tr"] = time.monotonic()
            ev["err"] = type(e).__name__
            TRACE.record(ev)
            raise
        ev["tr"] = time.monotonic()
        TRACE.record(ev)
        return res

    return set


def _wrap_del(orig, opname):
    async def delete(self, key=None, *a, **kw):
        if not TRACE.enabled:
            return await (orig(self, key, *a, **kw) if key is not None else orig(self))
        ev = _mk_event(self, opname, key)
        try:
            res = await (orig(self, key, *a, **kw) if key is not None else orig(self))
        except BaseException as e:
            ev["tr"] = time.monotonic()
            ev["err"] = type(e).__name__
            TRACE.record(ev)
            raise
        ev["tr"] = time.monotonic()
        TRACE.record(ev)
        return res

    return delete


def _wrap_get_partial(orig):
    async def get_partial_values(self, prototype, key_ranges, *a, **kw):
        key_ranges = list(key_ranges)
        if not TRACE.enabled:
            return await orig(self, prototype, key_ranges, *a, **kw)
        evs = [_mk_event(self, "get", k) for k, _ in key_ranges]
        res = await orig(self, prototype, key_ranges, *a, **kw)
        t = time.monotonic()
        for ev, r in zip(evs, res):
            ev["tr"] = t
            ev["hit"] = r is not None
            ev["partial"] = True
            TRACE.record(ev)
        return res

    return get_partial_values


def install():
    """Idempotent class-level patching of the local stores."""
    global _installed
    if _installed:
        return
    from zarr.storage import LocalStore, MemoryStore

    for cls in (LocalStore, MemoryStore):
        cls.get = _wrap_get(cls.get)
        cls.set = _wrap_set(cls.set, "set")
        if "set_if_not_exists" in cls.__dict__:
            cls.set_if_not_exists = _wrap_set(cls.set_if_not_exists, "set_if_not_exists")
        cls.delete = _wrap_del(cls.delete, "delete")
        if "delete_dir" in cls.__dict__:
            cls.delete_dir = _wrap_del(cls.delete_dir, "delete_dir")
        if "clear" in cls.__dict__:
            cls.clear = _wrap_del(cls.clear, "clear")
        if "get_partial_values" in cls.__dict__:
            cls.get_partial_values = _wrap_get_partial(cls.get_partial_values)
    _installed = True
    path = os.environ.get("VERIF_TRACE_FILE")
    if path and os.environ.get("VERIF_TRACE_PARENT") != str(os.getpid()):
        TRACE.sink = open(path, "a", buffering=1)
        TRACE.enabled = True
        TRACE.digest = False
        inj = os.environ.get("VERIF_INJECT")
        if inj:
            kind, seed = inj.split(":")[:2]
            if kind == "delay":
                TRACE.injector = make_delay_injector(int(seed))
        if inj and inj.startswith("failkey:"):
            _, k, root_suffix, key = inj.split(":", 3)
            TRACE.injector = make_fail_injector(int(k), root_suffix, key)


def make_fail_injector(k, root_suffix, key):
    """Fail the first k `get`s of one chunk key (of the store whose root ends with root_suffix) with OSError."""
    state = {"n": 0}

    def inj(phase, ev):
        if ev["op"] == "get" and ev["key"] == key and str(ev["root"]).endswith(root_suffix):
            state["n"] += 1
            ev["fault_access"] = state["n"]
            if state["n"] <= k:
                raise OSError(f"injected storage fault {state['n']}")
        return 0.0

    inj.state = state
    return inj


def make_delay_injector(seed, choices=(0.0, 0.0, 0.001, 0.005, 0.02)):
    """Seeded write-visibility latency: the delay before a data-chunk `set` reaches the store is a
    deterministic function of (seed, key). Applied at the store coroutine (a real suspension point)."""

    def inj(phase, ev):
        if ev["op"] not in ("set", "set_if_not_exists"):
            return 0.0
        h = hashlib.blake2b(f"{seed}:{ev['key']}".encode(), digest_size=2).digest()
        return choices[h[0] % len(choices)]

    return inj


def read_sink(path):
    evs = []
    if not os.path.exists(path):
        return evs
    with open(path) as f:
        for line in f:
            line = line.strip()
            if line:
                try:
                    evs.append(json.loads(line))
                except ValueError:
                    pass
    for e in evs:
        if isinstance(e.get("task"), list):
            e["task"] = _tup(e["task"])
    evs.sort(key=lambda e: (e["tc"], e.get("seq", 0)))
    return evs


def _tup(x):
    return tuple(_tup(i) for i in x) if isinstance(x, list) else x


# ---------------------------------------------------------------------------------------------
# helpers over event lists


def data_events(events, op=None):
    out = []
    for e in events:
        if op is not None and e["op"] not in op:
            continue
        kind, arr, coords = classify_key(e["key"]) if e.get("key") else ("other", None, None)
        if kind == "data":
            out.append((e, arr, coords))
    return out


def mutations(events):
    return [e for e in events if e["op"] in ("set", "set_if_not_exists", "delete", "delete_dir", "clear") and "err" not in e]


def dir_snapshot(root):
    """{relative path: (size, blake2 digest)} via os.walk (glob('**') returns a missing root)."""
    snap = {}
    if not os.path.isdir(root):
        return snap
    for dp, dn, fn in os.walk(root):
        for f in fn:
            p = os.path.join(dp, f)
            try:
                with open(p, "rb") as fh:
                    b = fh.read()
            except OSError:
                continue
            snap[os.path.relpath(p, root)] = (len(b), hashlib.blake2b(b, digest_size=8).hexdigest())
    return snap
