"""Recipe generator + the two interpreters (cubed / NumPy shadow).

A recipe is JSON: {"nodes": [node...], "outputs": [idx...]}.
node = {"op": name, "in": [idx...], "p": {...}}; leaves have op "leaf" with
p = {"shape", "chunks", "dtype", "seed", "src", "nan"?, "sorted"?}.
A node's value is an array or (multi-output ops) a tuple of arrays, picked by op "pick".

The generator evaluates NumPy while it builds, so that parameters are drawn from the domain where
NumPy itself accepts the call; candidates NumPy rejects are discarded (out of scope, counted).
"""
from __future__ import annotations

import hashlib
import json
import math
import random
import warnings

import numpy as np

warnings.filterwarnings("ignore")
np.seterr(all="ignore")

INT_DT = ["int8", "int16", "int32", "int64", "uint8", "uint16", "uint32", "uint64"]
FLOAT_DT = ["float32", "float64"]
CPLX_DT = ["complex64", "complex128"]
ALL_DT = ["bool"] + INT_DT + FLOAT_DT + CPLX_DT


def rhash(obj) -> str:
    return hashlib.blake2b(json.dumps(obj, sort_keys=True, default=str).encode(), digest_size=8).hexdigest()


# ---------------------------------------------------------------------------------------------
# leaf data


def leaf_data(p):
    shape = tuple(p["shape"])
    dt = np.dtype(p["dtype"])
    if p.get("labels") is not None:
        return np.asarray(p["labels"], dtype=dt).reshape(shape)
    n = int(np.prod(shape)) if len(shape) else 1
    rs = np.random.RandomState(p.get("seed", 0) % (2**31))
    if p.get("sorted"):
        base = np.sort(rs.randint(0, max(4, n), size=n))
    elif p.get("small"):
        base = rs.randint(0, 4, size=n)
    else:
        base = rs.permutation(n) + p.get("offset", 1)
    if dt.kind == "b":
        a = (base % 3 == 0)
    elif dt.kind in "iu":
        hi = min(np.iinfo(dt).max, 10**6)
        a = (base % (hi + 1)).astype(dt)
        if dt.kind == "i" and p.get("neg", True) and not p.get("sorted"):
            a = np.where(base % 4 == 1, -a, a).astype(dt)
    elif dt.kind == "f":
        a = base.astype(dt)
        if p.get("neg", True) and not p.get("sorted"):
            a = np.where(base % 4 == 1, -a, a).astype(dt)
        if p.get("frac"):
            a = (a / 4).astype(dt)
        if p.get("nan"):
            a = a.copy()
            a[base % p["nan"] == 0] = np.nan
    else:
        a = (base + 1j * ((base * 7) % 5)).astype(dt)
    return np.array(a.reshape(shape), order="C", copy=True)


# ---------------------------------------------------------------------------------------------
# registries of user functions for map_blocks / map_overlap / apply_gufunc (named => replayable)


def _ub_double(a):
    return a * 2


def _ub_addid(a, block_id=None):
    return a + sum((i + 1) * (10**k) for k, i in enumerate(block_id))


def _ub_neg(a):
    return -a


USER_FUNCS = {"double": _ub_double, "addid": _ub_addid, "neg": _ub_neg}


def _group_sum_block(a, by, axis, num_groups, dtype, start=0):
    """Per-block group sums along `axis` (labels `by` 1-D, groups start..start+num_groups-1)."""
    a = np.asarray(a)
    by = np.asarray(by).reshape(-1)
    shape = list(a.shape)
    shape[axis] = num_groups
    out = np.zeros(shape, dtype=dtype)
    am = np.moveaxis(a, axis, 0)
    om = np.moveaxis(out, axis, 0)
    for k in range(am.shape[0]):
        om[int(by[k]) - start] += am[k]
    return out


def _gb_func(a, by, axis=None, intermediate_dtype=None, num_groups=None):
    return _group_sum_block(a, by, axis, num_groups, intermediate_dtype)


def _gb_combine(a, axis=None, dummy_axis=None, dtype=None, keepdims=None):
    # combine over the dummy axis only, to preserve grouping along the group axis
    return np.sum(a, dtype=dtype, axis=dummy_axis, keepdims=keepdims)


def _gbb_func(arr, by, axis=None, start_group=None, num_groups=None, groupby_dtype=None):
    return _group_sum_block(arr, by, axis, num_groups, groupby_dtype, start=start_group)


def _np_group_sum(a, by, axis, num_groups, dtype):
    return _group_sum_block(a, by, axis, num_groups, dtype)


# ---------------------------------------------------------------------------------------------
# key (index) encoding


def enc_key(key):
    out = []
    for k in key:
        if k is None:
            out.append({"t": "new"})
        elif k is Ellipsis:
            out.append({"t": "ell"})
        elif isinstance(k, slice):
            out.append({"t": "sl", "v": [k.start, k.stop, k.step]})
        elif isinstance(k, (list, np.ndarray)):
            out.append({"t": "arr", "v": [int(i) for i in k]})
        else:
            out.append({"t": "int", "v": int(k)})
    return out


def dec_key(enc, arr_as=None):
    out = []
    for k in enc:
        t = k["t"]
        if t == "new":
            out.append(None)
        elif t == "ell":
            out.append(Ellipsis)
        elif t == "sl":
            out.append(slice(*k["v"]))
        elif t == "arr":
            out.append(np.asarray(k["v"], dtype=np.int64) if arr_as is None else arr_as(k["v"]))
        else:
            out.append(k["v"])
    return tuple(out)


# ---------------------------------------------------------------------------------------------
# op table

UNARY = {
    # name: (numpy name, allowed kinds)
    "abs": ("abs", "iufc"),
    "negative": ("negative", "iufc"),
    "positive": ("positive", "iufc"),
    "square": ("square", "iufc"),
    "sign": ("sign", "iuf"),
    "sqrt": ("sqrt", "fc"),
    "exp": ("exp", "fc"),
    "expm1": ("expm1", "fc"),
    "log": ("log", "fc"),
    "log1p": ("log1p", "fc"),
    "log2": ("log2", "fc"),
    "log10": ("log10", "fc"),
    "sin": ("sin", "fc"),
    "cos": ("cos", "fc"),
    "tan": ("tan", "fc"),
    "sinh": ("sinh", "fc"),
    "cosh": ("cosh", "fc"),
    "tanh": ("tanh", "fc"),
    "asin": ("arcsin", "fc"),
    "acos": ("arccos", "fc"),
    "atan": ("arctan", "fc"),
    "asinh": ("arcsinh", "fc"),
    "acosh": ("arccosh", "fc"),
    "atanh": ("arctanh", "fc"),
    "ceil": ("ceil", "iuf"),
    "floor": ("floor", "iuf"),
    "trunc": ("trunc", "iuf"),
    "round": ("round", "iufc"),
    "isfinite": ("isfinite", "iufc"),
    "isinf": ("isinf", "iufc"),
    "isnan": ("isnan", "iufc"),
    "reciprocal": ("reciprocal", "fc"),
    "signbit": ("signbit", "f"),
    "conj": ("conj", "iufc"),
    "real": ("real", "c"),
    "imag": ("imag", "c"),
    "logical_not": ("logical_not", "b"),
    "bitwise_invert": ("invert", "biu"),
}

BINARY = {
    "add": ("add", "iufc"),
    "subtract": ("subtract", "iufc"),
    "multiply": ("multiply", "iufc"),
    "divide": ("divide", "fc"),
    "floor_divide": ("floor_divide", "iuf"),
    "remainder": ("remainder", "iuf"),
    "pow": ("power", "iufc"),
    "maximum": ("maximum", "iuf"),
    "minimum": ("minimum", "iuf"),
    "equal": ("equal", "biufc"),
    "not_equal": ("not_equal", "biufc"),
    "less": ("less", "biuf"),
    "less_equal": ("less_equal", "biuf"),
    "greater": ("greater", "biuf"),
    "greater_equal": ("greater_equal", "biuf"),
    "logical_and": ("logical_and", "b"),
    "logical_or": ("logical_or", "b"),
    "logical_xor": ("logical_xor", "b"),
    "bitwise_and": ("bitwise_and", "biu"),
    "bitwise_or": ("bitwise_or", "biu"),
    "bitwise_xor": ("bitwise_xor", "biu"),
    "atan2": ("arctan2", "f"),
    "hypot": ("hypot", "f"),
    "copysign": ("copysign", "f"),
    "logaddexp": ("logaddexp", "f"),
    "nextafter": ("nextafter", "f"),
}

REDUCE = {
    # name: (numpy name, kinds, has dtype kw, has correction)
    "sum": ("sum", "iufc"),
    "prod": ("prod", "iufc"),
    "max": ("max", "iuf"),
    "min": ("min", "iuf"),
    "mean": ("mean", "f"),
    "var": ("var", "f"),
    "std": ("std", "f"),
    "all": ("all", "biufc"),
    "any": ("any", "biufc"),
    "argmax": ("argmax", "iuf"),
    "argmin": ("argmin", "iuf"),
    "count_nonzero": ("count_nonzero", "biufc"),
    "nansum": ("nansum", "f"),
    "nanprod": ("nanprod", "f"),
    "nanmax": ("nanmax", "f"),
    "nanmin": ("nanmin", "f"),
    "nanmean": ("nanmean", "f"),
    "nanvar": ("nanvar", "f"),
    "nanstd": ("nanstd", "f"),
    "nanargmax": ("nanargmax", "f"),
    "nanargmin": ("nanargmin", "f"),
}
TOPLEVEL_ONLY = {n for n in REDUCE if n.startswith("nan")} | {"nancumsum", "nancumprod", "nanmedian"}


def kind(a):
    return np.asarray(a).dtype.kind


# ---- helpers for parameter drawing


def draw_chunks(rng, shape, bias=None):
    out = []
    for d in shape:
        if d <= 1:
            out.append(1)
            continue
        r = rng.random()
        if r < 0.2:
            out.append(1)
        elif r < 0.4:
            out.append(d)
        elif r < 0.55:
            out.append(max(1, d - 1))
        elif r < 0.7:
            out.append(2)
        else:
            out.append(rng.randint(1, d))
    return out


def draw_shape(rng, maxdim, maxnd=4, ndim=None, allow_zero=True):
    nd = ndim if ndim is not None else rng.choice([0, 1, 1, 2, 2, 2, 3, 3, 4][: 3 + 2 * maxnd])
    nd = min(nd, maxnd)
    shape = []
    for _ in range(nd):
        r = rng.random()
        if r < 0.04 and allow_zero:
            shape.append(0)
        elif r < 0.12:
            shape.append(1)
        else:
            shape.append(rng.randint(2, maxdim))
    # keep total size modest
    while shape and int(np.prod(shape)) > 3000:
        i = max(range(len(shape)), key=lambda j: shape[j])
        shape[i] = max(1, shape[i] // 2)
    return shape


def draw_axis(rng, nd, allow_none=True, allow_tuple=True, allow_neg=True):
    if nd == 0:
        return None
    r = rng.random()
    if allow_none and r < 0.2:
        return None
    if allow_tuple and r < 0.35 and nd >= 2:
        k = rng.randint(1, nd)
        ax = rng.sample(range(nd), k)
        return [a - nd if (allow_neg and rng.random() < 0.3) else a for a in ax]
    a = rng.randrange(nd)
    if allow_neg and rng.random() < 0.3:
        a -= nd
    return a


def draw_split_every(rng, nd=1):
    r = rng.random()
    if r < 0.45:
        return None
    if r < 0.9:
        return rng.choice([2, 2, 3, 4, 5, 10])
    return {"dict": {str(a): rng.choice([2, 3, 4]) for a in range(nd)}}


def dec_split_every(se):
    if isinstance(se, dict) and "dict" in se:
        return {int(k): v for k, v in se["dict"].items()}
    return se


def ax_dec(a):
    return tuple(a) if isinstance(a, list) else a


# ---------------------------------------------------------------------------------------------
# NumPy interpreter


ORDER_SENSITIVE = {"cumulative_sum", "cumulative_prod", "nancumsum", "nancumprod", "sum", "prod", "nansum", "nanprod", "mean", "nanmean",
                   "var", "std", "nanvar", "nanstd", "matmul", "tensordot", "vecdot", "map_overlap_sum3", "gufunc_mean_last"}


class NumpyReject(Exception):
    pass


def np_eval_node(node, vals):
    op, p = node["op"], node.get("p", {})
    ins = [vals[i] for i in node.get("in", [])]
    if op == "leaf":
        return leaf_data(p)
    if op == "random":
        # placeholder of the right shape/dtype: values of random arrays are judged by property oracles
        return np.full(tuple(p["shape"]), 0.5, dtype=np.float64)
    if op == "pick":
        return ins[0][p["i"]]
    if op == "create":
        return np_create(p)
    if op in UNARY:
        return getattr(np, UNARY[op][0])(ins[0])
    if op in BINARY:
        a = ins[0]
        b = ins[1] if len(ins) > 1 else p["scalar"]
        if p.get("swap"):
            a, b = b, a
        return getattr(np, BINARY[op][0])(a, b)
    if op in ("bitwise_left_shift", "bitwise_right_shift"):
        f = np.left_shift if op.endswith("left_shift") else np.right_shift
        b = ins[1] if len(ins) > 1 else p["scalar"]
        return f(ins[0], b)
    if op in REDUCE:
        kw = {}
        ax = ax_dec(p.get("axis"))
        f = getattr(np, REDUCE[op][0])
        if op in ("argmax", "argmin", "nanargmax", "nanargmin"):
            return f(ins[0], axis=ax, keepdims=p.get("keepdims", False))
        if op in ("var", "std", "nanvar", "nanstd"):
            kw["ddof"] = p.get("correction", 0.0)
        if p.get("dtype"):
            kw["dtype"] = np.dtype(p["dtype"])
        return f(ins[0], axis=ax, keepdims=p.get("keepdims", False), **kw)
    if op == "nanmedian":
        return np.nanmedian(ins[0], axis=ax_dec(p.get("axis")), keepdims=p.get("keepdims", False))
    if op in ("cumulative_sum", "cumulative_prod"):
        f = np.cumulative_sum if op == "cumulative_sum" else np.cumulative_prod
        kw = {}
        if p.get("dtype"):
            kw["dtype"] = np.dtype(p["dtype"])
        return f(ins[0], axis=p.get("axis"), include_initial=p.get("include_initial", False), **kw)
    if op in ("nancumsum", "nancumprod"):
        return getattr(np, op)(ins[0], axis=p.get("axis"))
    if op == "where":
        return np.where(ins[0], ins[1], ins[2])
    if op == "clip":
        return np.clip(ins[0], p.get("min"), p.get("max"))
    if op == "astype":
        return ins[0].astype(np.dtype(p["dtype"]))
    if op == "broadcast_to":
        return np.broadcast_to(ins[0], tuple(p["shape"]))
    if op == "concat":
        return np.concatenate([np.asarray(a) for a in ins], axis=p["axis"])
    if op == "stack":
        return np.stack(ins, axis=p["axis"])
    if op == "unstack":
        return tuple(np.unstack(ins[0], axis=p["axis"]))
    if op == "broadcast_arrays":
        return tuple(np.broadcast_arrays(*ins))
    if op == "meshgrid":
        return tuple(np.meshgrid(*ins, indexing=p["indexing"]))
    if op == "expand_dims":
        return np.expand_dims(ins[0], ax_dec(p["axis"]))
    if op == "flip":
        return np.flip(ins[0], axis=ax_dec(p.get("axis")))
    if op == "moveaxis":
        return np.moveaxis(ins[0], ax_dec(p["source"]), ax_dec(p["destination"]))
    if op == "permute_dims":
        return np.transpose(ins[0], tuple(p["axes"]))
    if op == "matrix_transpose":
        return np.swapaxes(ins[0], -1, -2)
    if op == "T":
        return ins[0].T
    if op == "repeat":
        return np.repeat(ins[0], p["repeats"], axis=p.get("axis"))
    if op == "reshape":
        return np.reshape(ins[0], tuple(p["shape"]))
    if op == "roll":
        return np.roll(ins[0], ax_dec(p["shift"]), axis=ax_dec(p.get("axis")))
    if op == "squeeze":
        return np.squeeze(ins[0], axis=ax_dec(p["axis"]))
    if op == "tile":
        return np.tile(ins[0], tuple(p["reps"]))
    if op == "matmul":
        return np.matmul(ins[0], ins[1])
    if op == "tensordot":
        axes = p["axes"]
        if isinstance(axes, list):
            axes = (tuple(axes[0]), tuple(axes[1]))
        return np.tensordot(ins[0], ins[1], axes=axes)
    if op == "vecdot":
        return np.vecdot(ins[0], ins[1], axis=p["axis"])
    if op == "outer":
        return np.outer(ins[0], ins[1])
    if op == "index":
        return ins[0][dec_key(p["key"])]
    if op == "take":
        return np.take(ins[0], np.asarray(p["indices"], dtype=np.int64), axis=p.get("axis"))
    if op == "diff":
        kw = {}
        if "prepend" in p:
            kw["prepend"] = ins[1 if "prepend" in p else 0]
        if "append" in p:
            kw["append"] = ins[-1]
        return np.diff(ins[0], n=p.get("n", 1), axis=p.get("axis", -1), **kw)
    if op == "searchsorted":
        return np.searchsorted(ins[0], ins[1], side=p.get("side", "left"))
    if op == "groupby_sum":
        return _np_group_sum(ins[0], ins[1], p["axis"] % ins[0].ndim, p["num_groups"], np.dtype(p["dtype"]))
    if op == "groupby_blockwise_sum":
        return _np_group_sum(ins[0], np.asarray(p["by"]), p["axis"] % ins[0].ndim, p["num_groups"], np.dtype(p["dtype"]))
    if op == "merge_chunks":
        return ins[0]
    if op == "blocks":
        # x.blocks[key]: the selected blocks of the declared chunk grid, concatenated
        a = ins[0]
        ch = p["in_chunks"]
        out = a
        for ax, (k, c, d) in enumerate(zip(dec_key(p["key"]), ch, a.shape)):
            nb = max(1, -(-d // c))
            sel = list(range(nb))[k] if isinstance(k, slice) else ([int(i) % nb if -nb <= int(i) < nb else nb for i in k] if isinstance(k, np.ndarray) else [list(range(nb))[k]])
            if any(i >= nb for i in sel):
                raise IndexError("block index out of range")
            parts = [np.take(out, range(i * c, min(d, (i + 1) * c)), axis=ax) for i in sel]
            out = np.concatenate(parts, axis=ax) if parts else np.take(out, [], axis=ax)
        return out
    if op == "map_blocks_addid":
        # block_id-dependent user function: evaluated per block of the declared chunk grid of the input
        a = ins[0]
        out = np.array(a, copy=True)
        import itertools

        ch = p["in_chunks"]
        nb = [max(1, -(-d // c)) for d, c in zip(a.shape, ch)]
        for bid in itertools.product(*[range(n) for n in nb]):
            sl = tuple(slice(b * c, min(d, (b + 1) * c)) for b, c, d in zip(bid, ch, a.shape))
            out[sl] = _ub_addid(a[sl], block_id=bid)
        return out
    if op == "isin":
        return np.isin(ins[0], ins[1], invert=p.get("invert", False))
    if op == "pad":
        pw = [tuple(x) for x in p["pad_width"]]
        if p["mode"] == "constant":
            return np.pad(ins[0], pw, mode="constant", constant_values=p.get("constant_values", 0))
        return np.pad(ins[0], pw, mode=p["mode"])
    if op == "rechunk":
        return ins[0]
    if op == "tril":
        return np.tril(ins[0], k=p.get("k", 0))
    if op == "triu":
        return np.triu(ins[0], k=p.get("k", 0))
    if op in ("zeros_like", "ones_like", "full_like"):
        dt = np.dtype(p["dtype"]) if p.get("dtype") else None
        if op == "zeros_like":
            return np.zeros_like(ins[0], dtype=dt)
        if op == "ones_like":
            return np.ones_like(ins[0], dtype=dt)
        return np.full_like(ins[0], p["fill"], dtype=dt)
    if op == "map_blocks":
        return USER_FUNCS[p["fn"]](ins[0])
    if op == "map_overlap_sum3":
        a = ins[0]
        out = a.copy()
        d = p["depth"]
        padded = np.pad(a, [(d, d)] * a.ndim, mode="constant", constant_values=p.get("boundary", 0))
        out = np.zeros_like(a)
        # window sum over (2d+1)^ndim neighbourhood
        import itertools

        for off in itertools.product(range(2 * d + 1), repeat=a.ndim):
            sl = tuple(slice(o, o + s) for o, s in zip(off, a.shape))
            out = out + padded[sl]
        return out
    if op == "gufunc_mean_last":
        return np.mean(ins[0], axis=-1)
    if op == "gufunc_outer_add":
        return ins[0][..., :, None] + ins[1][..., None, :]
    if op in ("qr", "svd", "svdvals"):
        if op == "qr":
            return tuple(np.linalg.qr(ins[0]))
        if op == "svd":
            return tuple(np.linalg.svd(ins[0], full_matrices=False))
        return np.linalg.svd(ins[0], compute_uv=False)
    raise KeyError(op)


def np_create(p):
    f = p["fn"]
    dt = np.dtype(p["dtype"]) if p.get("dtype") else None
    if f == "arange":
        return np.arange(p["start"], p["stop"], p["step"], dtype=dt)
    if f == "linspace":
        return np.linspace(p["start"], p["stop"], p["num"], endpoint=p["endpoint"], dtype=dt)
    if f == "eye":
        return np.eye(p["n"], p["m"], k=p["k"], dtype=dt)
    if f == "full":
        return np.full(tuple(p["shape"]), p["fill"], dtype=dt)
    if f == "ones":
        return np.ones(tuple(p["shape"]), dtype=dt)
    if f == "zeros":
        return np.zeros(tuple(p["shape"]), dtype=dt)
    raise KeyError(f)


def np_eval(recipe):
    vals = {}
    for i, node in enumerate(recipe["nodes"]):
        if "expect_override" in node:
            vals[i] = np.asarray(node["expect_override"]["data"], dtype=node["expect_override"]["dtype"]).reshape(node["expect_override"]["shape"])
            continue
        vals[i] = np_eval_node(node, vals)
    return vals


# ---------------------------------------------------------------------------------------------
# cubed interpreter


class BuildEnv:
    def __init__(self, spec, workdir, leaf_spec_kw=True):
        self.spec = spec
        self.workdir = workdir
        self.zcount = 0


def cu_eval_node(node, vals, env, idx):
    import cubed
    import cubed.array_api as xp

    op, p = node["op"], node.get("p", {})
    ins = [vals[i] for i in node.get("in", [])]
    spec = env.spec
    skw = {"spec": spec} if spec is not None else {}
    if op == "leaf":
        data = leaf_data(p)
        chunks = tuple(p["chunks"])
        src = p.get("src", "asarray")
        if src == "from_array":
            return cubed.from_array(data, chunks=chunks, **skw)
        if src == "from_zarr":
            import os

            import zarr

            path = os.path.join(env.workdir, "inputs", f"in-{idx}-{env.zcount}.zarr")
            env.zcount += 1
            if data.size > 0 and data.ndim > 0:
                from vlib import storetrace

                with storetrace.paused():  # the harness's own write of the input is not an observation
                    z = zarr.create_array(store=path, shape=data.shape, dtype=data.dtype, chunks=chunks, overwrite=True)
                    z[...] = data
                return cubed.from_zarr(path, **skw)
            return xp.asarray(data, chunks=chunks, **skw)
        return xp.asarray(data, chunks=chunks, **skw)
    if op == "random":
        import cubed.random

        return cubed.random.random(tuple(p["shape"]), chunks=tuple(p["chunks"]), **skw)
    if op == "pick":
        return ins[0][p["i"]]
    if op == "create":
        return cu_create(p, skw)
    if op in UNARY:
        return getattr(xp, op)(ins[0])
    if op in BINARY or op in ("bitwise_left_shift", "bitwise_right_shift"):
        a = ins[0]
        b = ins[1] if len(ins) > 1 else p["scalar"]
        if p.get("swap"):
            a, b = b, a
        if p.get("operator") and op in OPERATORS:
            import operator as _o

            return getattr(_o, OPERATORS[op])(a, b)
        return getattr(xp, op)(a, b)
    if op in REDUCE:
        kw = {}
        ns = cubed if op in TOPLEVEL_ONLY else xp
        f = getattr(ns, op)
        if "split_every" in p and p["split_every"] is not None:
            kw["split_every"] = dec_split_every(p["split_every"])
        if op in ("var", "std", "nanvar", "nanstd"):
            kw["correction"] = p.get("correction", 0.0)
        if p.get("dtype"):
            kw["dtype"] = np.dtype(p["dtype"])
        return f(ins[0], axis=ax_dec(p.get("axis")), keepdims=p.get("keepdims", False), **kw)
    if op == "nanmedian":
        return cubed.nanmedian(ins[0], axis=ax_dec(p.get("axis")), keepdims=p.get("keepdims", False))
    if op in ("cumulative_sum", "cumulative_prod"):
        kw = {}
        if p.get("dtype"):
            kw["dtype"] = np.dtype(p["dtype"])
        return getattr(xp, op)(ins[0], axis=p.get("axis"), include_initial=p.get("include_initial", False), **kw)
    if op in ("nancumsum", "nancumprod"):
        return getattr(cubed, op)(ins[0], axis=p.get("axis"))
    if op == "where":
        return xp.where(ins[0], ins[1], ins[2])
    if op == "clip":
        return xp.clip(ins[0], p.get("min"), p.get("max"))
    if op == "astype":
        return xp.astype(ins[0], np.dtype(p["dtype"]))
    if op == "broadcast_to":
        kw = {"chunks": tuple(p["chunks"])} if p.get("chunks") else {}
        return xp.broadcast_to(ins[0], tuple(p["shape"]), **kw)
    if op == "concat":
        return xp.concat(list(ins), axis=p["axis"])
    if op == "stack":
        return xp.stack(list(ins), axis=p["axis"])
    if op == "unstack":
        return tuple(xp.unstack(ins[0], axis=p["axis"]))
    if op == "broadcast_arrays":
        return tuple(xp.broadcast_arrays(*ins))
    if op == "meshgrid":
        return tuple(xp.meshgrid(*ins, indexing=p["indexing"]))
    if op == "expand_dims":
        return xp.expand_dims(ins[0], axis=ax_dec(p["axis"]))
    if op == "flip":
        return xp.flip(ins[0], axis=ax_dec(p.get("axis")))
    if op == "moveaxis":
        return xp.moveaxis(ins[0], ax_dec(p["source"]), ax_dec(p["destination"]))
    if op == "permute_dims":
        return xp.permute_dims(ins[0], tuple(p["axes"]))
    if op == "matrix_transpose":
        return xp.matrix_transpose(ins[0])
    if op == "T":
        return ins[0].T
    if op == "repeat":
        return xp.repeat(ins[0], p["repeats"], axis=p.get("axis"))
    if op == "reshape":
        return xp.reshape(ins[0], tuple(p["shape"]))
    if op == "roll":
        return xp.roll(ins[0], ax_dec(p["shift"]), axis=ax_dec(p.get("axis")))
    if op == "squeeze":
        return xp.squeeze(ins[0], axis=ax_dec(p["axis"]))
    if op == "tile":
        return xp.tile(ins[0], tuple(p["reps"]))
    if op == "matmul":
        kw = {"split_every": p["split_every"]} if p.get("split_every") else {}
        if p.get("operator"):
            return ins[0] @ ins[1]
        return xp.matmul(ins[0], ins[1], **kw)
    if op == "tensordot":
        axes = p["axes"]
        if isinstance(axes, list):
            axes = (tuple(axes[0]), tuple(axes[1]))
        kw = {"split_every": p["split_every"]} if p.get("split_every") else {}
        return xp.tensordot(ins[0], ins[1], axes=axes, **kw)
    if op == "vecdot":
        return xp.vecdot(ins[0], ins[1], axis=p["axis"])
    if op == "outer":
        return xp.linalg.outer(ins[0], ins[1])
    if op == "index":
        return ins[0][dec_key(p["key"])]
    if op == "take":
        return xp.take(ins[0], xp.asarray(np.asarray(p["indices"], dtype=np.int64), **skw), axis=p.get("axis"))
    if op == "diff":
        kw = {}
        if "prepend" in p:
            kw["prepend"] = ins[1]
        if "append" in p:
            kw["append"] = ins[-1]
        return xp.diff(ins[0], n=p.get("n", 1), axis=p.get("axis", -1), **kw)
    if op == "searchsorted":
        return xp.searchsorted(ins[0], ins[1], side=p.get("side", "left"))
    if op == "groupby_sum":
        from cubed.core.groupby import groupby_reduction

        dt = np.dtype(p["dtype"])
        return groupby_reduction(
            ins[0], ins[1], func=_gb_func, combine_func=_gb_combine, axis=p["axis"] % ins[0].ndim,
            intermediate_dtype=dt, dtype=dt, num_groups=p["num_groups"],
            **({"split_every": dec_split_every(p["split_every"])} if p.get("split_every") else {}),
        )
    if op == "groupby_blockwise_sum":
        from cubed.core.groupby import groupby_blockwise

        dt = np.dtype(p["dtype"])
        return groupby_blockwise(
            ins[0], np.asarray(p["by"], dtype=np.int64), func=_gbb_func, axis=p["axis"] % ins[0].ndim, dtype=dt,
            num_groups=p["num_groups"], groupby_dtype=dt,
        )
    if op == "blocks":
        if list(ins[0].chunksize) != list(p["in_chunks"]):
            raise NotImplementedError("harness: input chunking differs from the one the reference assumed")
        key = dec_key(p["key"], arr_as=lambda v: [int(i) for i in v])
        return ins[0].blocks[key if len(key) > 1 else key[0]]
    if op == "merge_chunks":
        from cubed.core.ops import merge_chunks

        return merge_chunks(ins[0], tuple(p["chunks"]))
    if op == "map_blocks_addid":
        if list(ins[0].chunksize) != list(p["in_chunks"]) and ins[0].size:
            raise NotImplementedError("harness: input chunking differs from the one the reference assumed")
        return cubed.map_blocks(_ub_addid, ins[0], dtype=ins[0].dtype)
    if op == "isin":
        return xp.isin(ins[0], ins[1], invert=p.get("invert", False))
    if op == "pad":
        pw = tuple(tuple(x) for x in p["pad_width"])
        kw = {}
        if p["mode"] == "constant" and "constant_values" in p:
            kw["constant_values"] = p["constant_values"]
        return cubed.pad(ins[0], pw, mode=p["mode"], **kw)
    if op == "rechunk":
        kw = {}
        if "min_mem" in p:
            kw["min_mem"] = p["min_mem"]
        if "allow_irregular" in p:
            kw["allow_irregular"] = p["allow_irregular"]
        if p.get("method"):
            return ins[0].rechunk(tuple(p["chunks"]), **kw)
        return cubed.rechunk(ins[0], tuple(p["chunks"]), **kw)
    if op == "tril":
        return xp.tril(ins[0], k=p.get("k", 0))
    if op == "triu":
        return xp.triu(ins[0], k=p.get("k", 0))
    if op in ("zeros_like", "ones_like", "full_like"):
        kw = {}
        if p.get("dtype"):
            kw["dtype"] = np.dtype(p["dtype"])
        if op == "full_like":
            return xp.full_like(ins[0], p["fill"], **kw)
        return getattr(xp, op)(ins[0], **kw)
    if op == "map_blocks":
        return cubed.map_blocks(USER_FUNCS[p["fn"]], ins[0], dtype=ins[0].dtype)
    if op == "map_overlap_sum3":
        d = p["depth"]
        nd = ins[0].ndim

        def winsum(a, _d=d):
            import itertools

            core = tuple(s - 2 * _d for s in a.shape)
            out = np.zeros(core, dtype=a.dtype)
            for off in itertools.product(range(2 * _d + 1), repeat=a.ndim):
                sl = tuple(slice(o, o + s) for o, s in zip(off, core))
                out = out + a[sl]
            return out

        return cubed.map_overlap(
            winsum, ins[0], dtype=ins[0].dtype, chunks=ins[0].chunks, depth=d, boundary=p.get("boundary", 0)
        )
    if op == "gufunc_mean_last":
        return cubed.apply_gufunc(lambda a: np.mean(a, axis=-1), "(i)->()", ins[0], output_dtypes=np.float64)
    if op == "gufunc_outer_add":
        return cubed.apply_gufunc(
            lambda a, b: a[..., :, None] + b[..., None, :], "(i),(j)->(i,j)", ins[0], ins[1], output_dtypes=ins[0].dtype
        )
    if op == "qr":
        return tuple(xp.linalg.qr(ins[0]))
    if op == "svd":
        return tuple(xp.linalg.svd(ins[0], full_matrices=False))
    if op == "svdvals":
        return xp.linalg.svdvals(ins[0])
    raise KeyError(op)


OPERATORS = {
    "add": "add", "subtract": "sub", "multiply": "mul", "divide": "truediv", "floor_divide": "floordiv",
    "remainder": "mod", "pow": "pow", "equal": "eq", "not_equal": "ne", "less": "lt", "less_equal": "le",
    "greater": "gt", "greater_equal": "ge", "bitwise_and": "and_", "bitwise_or": "or_", "bitwise_xor": "xor",
    "bitwise_left_shift": "lshift", "bitwise_right_shift": "rshift",
}


def cu_create(p, skw):
    import cubed.array_api as xp

    f = p["fn"]
    kw = dict(skw)
    if p.get("dtype"):
        kw["dtype"] = np.dtype(p["dtype"])
    if p.get("chunks") is not None:
        kw["chunks"] = tuple(p["chunks"]) if isinstance(p["chunks"], list) else p["chunks"]
    if f == "arange":
        return xp.arange(p["start"], p["stop"], p["step"], **kw)
    if f == "linspace":
        return xp.linspace(p["start"], p["stop"], p["num"], endpoint=p["endpoint"], **kw)
    if f == "eye":
        return xp.eye(p["n"], p["m"], k=p["k"], **kw)
    if f == "full":
        return xp.full(tuple(p["shape"]), p["fill"], **kw)
    if f == "ones":
        return xp.ones(tuple(p["shape"]), **kw)
    if f == "zeros":
        return xp.zeros(tuple(p["shape"]), **kw)
    raise KeyError(f)


def cu_build(recipe, env, upto=None):
    """Build cubed arrays for all nodes. Returns dict idx -> array/tuple. Raises whatever cubed raises."""
    vals = {}
    for i, node in enumerate(recipe["nodes"]):
        if upto is not None and i > upto:
            break
        try:
            vals[i] = cu_eval_node(node, vals, env, i)
        except Exception as e:
            try:
                e._verif_node = i
            except Exception:
                pass
            raise
    return vals


# ---------------------------------------------------------------------------------------------
# generator


class Gen:
    def __init__(self, seed, maxdim=9, maxnd=4, depth=4, weights=None, dtypes=None, leaf_srcs=None, hostile=0.0, allow_zero=True):
        self.rng = random.Random(seed)
        self.maxdim = maxdim
        self.maxnd = maxnd
        self.depth = depth
        self.weights = weights or {}
        self.dtypes = dtypes
        self.leaf_srcs = leaf_srcs or ["asarray", "asarray", "from_array", "from_zarr"]
        self.rejected = 0
        self.rollbacks = 0
        self.maxsize = 1500
        self.allow_zero = allow_zero
        self.maxblocks = 60
        self.hostile = hostile  # extra weight on corners cubed may not support (C17)
        self.seedctr = seed * 7919

    # -- leaves
    def new_leaf(self, shape=None, dtype=None, ndim=None, **extra):
        rng = self.rng
        if shape is None:
            shape = draw_shape(rng, self.maxdim, self.maxnd, ndim=ndim, allow_zero=self.allow_zero)
        if dtype is None:
            pool = self.dtypes or (
                ["float64"] * 5 + ["int64"] * 4 + ["float32", "int32", "int8", "uint8", "int16", "uint16", "uint32", "uint64", "bool", "complex128", "complex64"]
            )
            dtype = rng.choice(pool)
        self.seedctr += 1
        chunks = draw_chunks(rng, shape)
        # bound the number of blocks of a leaf
        for _ in range(8):
            nb = 1
            for d, c in zip(shape, chunks):
                nb *= max(1, -(-d // c))
            if nb <= self.maxblocks:
                break
            j = max(range(len(shape)), key=lambda t: -(-shape[t] // chunks[t]))
            chunks[j] = min(shape[j], chunks[j] * 2)
        p = {
            "shape": list(shape),
            "chunks": chunks,
            "dtype": dtype,
            "seed": self.seedctr,
            "src": rng.choice(self.leaf_srcs),
        }
        p.update(extra)
        return {"op": "leaf", "in": [], "p": p}

    def generate(self, nops=None):
        """Returns recipe (nodes, outputs) with NumPy-evaluated expectations kept aside."""
        rng = self.rng
        nodes, vals = [], {}

        def add(node):
            # returns index or None if numpy rejects
            i = len(nodes)
            try:
                with warnings.catch_warnings():
                    warnings.simplefilter("ignore")
                    v = np_eval_node(node, vals)
            except NumpyReject:
                raise
            except Exception:
                self.rejected += 1
                return None
            if node["op"] in ("sin", "cos", "tan") and node["in"]:
                # periodic functions of huge arguments amplify the (legitimate) last-bit differences of their
                # input beyond any tolerance: not a meaningful comparison, keep arguments moderate
                a0 = vals.get(node["in"][0])
                if isinstance(a0, np.ndarray) and a0.size and a0.dtype.kind in "fc":
                    with np.errstate(all="ignore"):
                        m = np.abs(a0[np.isfinite(a0)])
                    if m.size and float(m.max()) > 1e5:
                        return None
            if node["op"] in ("remainder", "floor_divide", "floor", "ceil", "trunc", "round") and node["in"]:
                # discontinuous functions evaluated (almost) at a jump: a last-bit difference in the argument -
                # e.g. linspace computed per block - flips the result between 0 and the divisor
                a0 = vals.get(node["in"][0])
                src_exact = nodes[node["in"][0]]["op"] == "leaf"
                if isinstance(a0, np.ndarray) and a0.dtype.kind == "f" and a0.size and not src_exact:
                    b0 = node["p"].get("scalar") if len(node["in"]) == 1 else vals.get(node["in"][1])
                    if node["op"] in ("remainder", "floor_divide") and b0 is not None:
                        with np.errstate(all="ignore"):
                            q = (np.asarray(b0, dtype="f8") / a0.astype("f8")) if node["p"].get("swap") else (a0.astype("f8") / np.asarray(b0, dtype="f8"))
                    else:
                        q = a0.astype("f8")
                    with np.errstate(all="ignore"):
                        q = q[np.isfinite(q)]
                        if q.size and np.any(np.abs(q - np.rint(q)) < 1e-9 * np.maximum(1.0, np.abs(q))):
                            return None
            if node["op"] in ORDER_SENSITIVE and isinstance(v, np.ndarray) and v.dtype.kind in "fc":
                # accumulations whose float result overflowed: whether an intermediate overflows depends on the
                # order of accumulation (NumPy's sequential cumprod hits inf where a blocked scan does not),
                # so there is no single right answer to compare with
                ins_ = [vals.get(k) for k in node["in"]]
                with np.errstate(all="ignore"):
                    if np.isinf(v).any() and not any(isinstance(x, np.ndarray) and x.dtype.kind in "fc" and np.isinf(x).any() for x in ins_):
                        return None
            # keep computations small: the cost of a run is ~10 ms per task
            vs = v if isinstance(v, tuple) else (v,)
            if any(getattr(x, "size", 1) > self.maxsize for x in vs):
                return None
            if not self.allow_zero and any(getattr(x, "size", 1) == 0 for x in vs):
                return None
            nodes.append(node)
            vals[i] = v
            return i

        self._add = add
        self._nodes = nodes
        self._vals = vals
        self._opaque = set()
        add(self.new_leaf())
        nops = nops if nops is not None else rng.randint(1, self.depth)
        tries = 0
        done = 0
        while done < nops and tries < nops * 12:
            tries += 1
            before = len(nodes)
            try:
                ok = self.add_random_op()
            except NumpyReject:
                ok = False
            except (KeyError, TypeError, IndexError, ValueError, AttributeError):
                # a helper node of this candidate was itself rejected (too large, NumPy refused it, ...):
                # the candidate is dropped and rolled back; only NumPy is involved in generation
                ok = False
                self.rollbacks += 1
            if ok:
                done += 1
            else:
                # roll back any partially added helper nodes
                del nodes[before:]
                for k in list(vals):
                    if k >= before:
                        del vals[k]
        arr_idx = [i for i in range(len(nodes)) if isinstance(vals[i], np.ndarray) or np.isscalar(vals[i])]
        # outputs: last array node plus up to 2 others (possibly intermediates)
        outs = [arr_idx[-1]]
        extra = rng.choice([0, 0, 0, 1, 1, 2])
        for _ in range(extra):
            c = rng.choice(arr_idx)
            if c not in outs:
                outs.append(c)
        # a decomposition is judged as a whole: request all of its factors together
        for c in list(outs):
            if nodes[c]["op"] == "pick" and nodes[nodes[c]["in"][0]]["op"] in ("qr", "svd"):
                parent = nodes[c]["in"][0]
                for j, n in enumerate(nodes):
                    if n["op"] == "pick" and n["in"][0] == parent and j not in outs:
                        outs.append(j)
        recipe = {"nodes": nodes, "outputs": outs}
        return recipe, vals

    # -- choose an existing array node
    def pick_array(self, pred=None):
        rng = self.rng
        cands = [
            i for i, v in self._vals.items()
            if isinstance(v, np.ndarray) and i not in self._opaque and (pred is None or pred(v))
        ]
        if not cands:
            return None
        # prefer recent nodes
        if rng.random() < 0.6:
            return cands[-1]
        return rng.choice(cands)

    def arr_or_leaf(self, pred, leafkw):
        i = self.pick_array(pred)
        if i is None or self.rng.random() < 0.25:
            return self._add(self.new_leaf(**leafkw))
        return i

    def add_random_op(self):
        rng = self.rng
        fams = {
            "unary": 6, "binary": 10, "reduce": 10, "cum": 4, "manip": 12, "index": 8, "linalg": 5,
            "concat": 5, "create": 3, "misc": 6, "multi": 3, "rechunk": 4, "combo": 3, "random": 0, "castchain": 1,
        }
        fams.update(self.weights)
        fams = {k: v for k, v in fams.items() if v > 0}
        names = list(fams)
        fam = rng.choices(names, weights=[fams[n] for n in names])[0]
        return getattr(self, "fam_" + fam)()

    # ---- families
    def fam_unary(self):
        rng = self.rng
        op = rng.choice(list(UNARY))
        kinds = UNARY[op][1]
        i = self.pick_array(lambda v: v.dtype.kind in kinds)
        if i is None:
            dt = {"b": "bool", "i": "int64", "u": "uint8", "f": "float64", "c": "complex128"}[rng.choice(kinds)]
            i = self._add(self.new_leaf(dtype=dt))
        return self._add({"op": op, "in": [i], "p": {}}) is not None

    def fam_binary(self):
        rng = self.rng
        names = list(BINARY) + ["bitwise_left_shift", "bitwise_right_shift"]
        op = rng.choice(names)
        if op in BINARY:
            kinds = BINARY[op][1]
        else:
            kinds = "iu"
        i = self.pick_array(lambda v: v.dtype.kind in kinds)
        if i is None:
            dt = {"b": "bool", "i": "int64", "u": "uint8", "f": "float64", "c": "complex128"}[rng.choice(kinds)]
            i = self._add(self.new_leaf(dtype=dt))
            if i is None:
                return False
        a = self._vals[i]
        p = {}
        r = rng.random()
        if op.startswith("bitwise_") and op.endswith("shift"):
            p["scalar"] = rng.randint(0, 3)
            if rng.random() < 0.3:
                p["operator"] = True
            return self._add({"op": op, "in": [i], "p": p}) is not None
        if r < 0.25:
            # python scalar
            if a.dtype.kind == "b":
                p["scalar"] = bool(rng.getrandbits(1))
            elif a.dtype.kind in "iu":
                p["scalar"] = rng.randint(1, 5)
            elif a.dtype.kind == "f":
                p["scalar"] = rng.choice([2, 3, 0.5, 2.5, -1.5])
            else:
                p["scalar"] = rng.choice([2, 0.5])
            if rng.random() < 0.3:
                p["swap"] = True
            if rng.random() < 0.4 and op in OPERATORS:
                p["operator"] = True
            return self._add({"op": op, "in": [i], "p": p}) is not None
        # second array operand: same dtype (mostly), broadcast-compatible shape, own chunking
        shape = list(a.shape)
        r2 = rng.random()
        if r2 < 0.5 or not shape:
            bshape = shape
        elif r2 < 0.7:
            bshape = [d if rng.random() < 0.5 else 1 for d in shape]
        elif r2 < 0.85:
            k = rng.randint(0, len(shape))
            bshape = shape[k:]
        else:
            bshape = [rng.randint(2, self.maxdim)] + [d if rng.random() < 0.7 else 1 for d in shape]
        dt = str(a.dtype)
        if rng.random() < 0.15:
            same_kind = [d for d in ALL_DT if np.dtype(d).kind == a.dtype.kind]
            dt = rng.choice(same_kind)
        if rng.random() < 0.3:
            j = self.pick_array(lambda v: list(v.shape) == bshape and v.dtype == a.dtype)
        else:
            j = None
        if j is None:
            j = self._add(self.new_leaf(shape=bshape, dtype=dt))
        if j is None:
            return False
        if rng.random() < 0.3:
            p["swap"] = True
        if rng.random() < 0.3 and op in OPERATORS:
            p["operator"] = True
        return self._add({"op": op, "in": [i, j], "p": p}) is not None

    def fam_reduce(self):
        rng = self.rng
        names = list(REDUCE) + ["nanmedian"]
        op = rng.choice(names)
        kinds = REDUCE[op][1] if op in REDUCE else "f"
        want_nan = op.startswith("nan")
        i = None
        if not want_nan or rng.random() < 0.3:
            i = self.pick_array(lambda v: v.dtype.kind in kinds and v.ndim >= 0)
        if i is None:
            dt = {"b": "bool", "i": "int64", "u": "uint8", "f": rng.choice(FLOAT_DT), "c": "complex128"}[rng.choice(kinds)]
            extra = {"nan": rng.choice([3, 4, 7])} if want_nan else {}
            i = self._add(self.new_leaf(dtype=dt, **extra))
            if i is None:
                return False
        a = self._vals[i]
        p = {}
        is_arg = "arg" in op
        p["axis"] = draw_axis(rng, a.ndim, allow_none=True, allow_tuple=not is_arg)
        if op == "nanmedian" and isinstance(p["axis"], list):
            p["axis"] = p["axis"][0]
        p["keepdims"] = rng.random() < 0.35
        if op != "nanmedian":
            p["split_every"] = draw_split_every(rng, a.ndim)
        if op in ("var", "std", "nanvar", "nanstd"):
            p["correction"] = rng.choice([0.0, 0.0, 1.0, 1])
        if op in ("sum", "prod", "nansum", "nanprod") and rng.random() < 0.15:
            p["dtype"] = "float64" if a.dtype.kind == "f" else ("int64" if a.dtype.kind in "iu" else None)
            if p["dtype"] is None:
                del p["dtype"]
        return self._add({"op": op, "in": [i], "p": p}) is not None

    def fam_cum(self):
        rng = self.rng
        op = rng.choice(["cumulative_sum", "cumulative_sum", "cumulative_prod", "nancumsum", "nancumprod"])
        kinds = "iuf" if not op.startswith("nan") else "f"
        i = self.pick_array(lambda v: v.dtype.kind in kinds and v.ndim >= 1)
        if i is None or rng.random() < 0.3:
            extra = {"nan": 4} if op.startswith("nan") else {}
            if op.endswith("prod"):
                extra["small"] = True
            i = self._add(self.new_leaf(dtype=rng.choice(["float64", "int64", "float32"] if not op.startswith("nan") else FLOAT_DT), ndim=rng.choice([1, 1, 2, 3]), **extra))
            if i is None:
                return False
        a = self._vals[i]
        if a.ndim == 0:
            return False
        p = {"axis": rng.randrange(a.ndim) if (a.ndim > 1 or rng.random() < 0.7) else None}
        if p["axis"] is not None and rng.random() < 0.3:
            p["axis"] -= a.ndim
        if not op.startswith("nan"):
            if rng.random() < 0.25:
                p["include_initial"] = True
            if rng.random() < 0.1:
                p["dtype"] = "float64" if a.dtype.kind == "f" else "int64"
        return self._add({"op": op, "in": [i], "p": p}) is not None

    def fam_manip(self):
        rng = self.rng
        op = rng.choice(
            ["broadcast_to", "expand_dims", "flip", "moveaxis", "permute_dims", "matrix_transpose", "T", "repeat",
             "reshape", "reshape", "roll", "squeeze", "tile", "astype", "where", "clip", "tril", "triu", "pad", "pad"]
        )
        i = self.pick_array()
        if i is None:
            return False
        a = self._vals[i]
        nd = a.ndim
        p = {}
        ins = [i]
        if op == "broadcast_to":
            lead = [rng.randint(1, 4) for _ in range(rng.randint(0, 2))]
            shape = lead + [d if d != 1 or rng.random() < 0.5 else rng.randint(2, 5) for d in a.shape]
            p["shape"] = shape
            if rng.random() < 0.4:
                p["chunks"] = draw_chunks(rng, shape)
        elif op == "expand_dims":
            p["axis"] = rng.randint(-nd - 1, nd)
        elif op == "flip":
            p["axis"] = draw_axis(rng, nd)
        elif op == "moveaxis":
            if nd < 1:
                return False
            k = rng.randint(1, min(nd, 2))
            src = rng.sample(range(nd), k)
            dst = rng.sample(range(nd), k)
            p["source"] = src if k > 1 else src[0]
            p["destination"] = dst if k > 1 else dst[0]
        elif op == "permute_dims":
            ax = list(range(nd))
            rng.shuffle(ax)
            p["axes"] = ax
        elif op == "matrix_transpose":
            if nd < 2:
                return False
        elif op == "T":
            if nd != 2:
                return False
        elif op == "repeat":
            p["repeats"] = rng.randint(1, 3) if not (self.allow_zero and rng.random() < 0.08) else 0
            p["axis"] = rng.randrange(nd) if nd and rng.random() < 0.85 else None
            if p["axis"] is not None and rng.random() < 0.3:
                p["axis"] -= nd
            if nd == 0:
                return False
        elif op == "reshape":
            n = a.size
            if n == 0:
                return False
            shape = self._factor_shape(n)
            if rng.random() < 0.3 and shape:
                shape[rng.randrange(len(shape))] = -1
            p["shape"] = shape
        elif op == "roll":
            if rng.random() < 0.3 or nd == 0:
                p["shift"] = rng.randint(-5, 5)
                p["axis"] = None
            elif rng.random() < 0.7:
                p["axis"] = rng.randrange(nd) - (nd if rng.random() < 0.3 else 0)
                p["shift"] = rng.randint(-2 * self.maxdim, 2 * self.maxdim)
            else:
                k = rng.randint(1, nd)
                p["axis"] = rng.sample(range(nd), k)
                p["shift"] = [rng.randint(-5, 5) for _ in range(k)]
        elif op == "squeeze":
            ones = [k for k, d in enumerate(a.shape) if d == 1]
            if not ones:
                # make one first
                j = self._add({"op": "expand_dims", "in": [i], "p": {"axis": rng.randint(0, nd)}})
                if j is None:
                    return False
                ins = [j]
                a = self._vals[j]
                ones = [k for k, d in enumerate(a.shape) if d == 1]
            k = rng.randint(1, len(ones))
            ax = rng.sample(ones, k)
            p["axis"] = ax if k > 1 else ax[0]
        elif op == "tile":
            p["reps"] = [rng.randint(1, 3) for _ in range(rng.randint(max(0, nd - 1), nd + 1))]
            if not p["reps"]:
                p["reps"] = [2]
            if self.allow_zero and rng.random() < 0.08:
                p["reps"][rng.randrange(len(p["reps"]))] = 0
        elif op == "astype":
            p["dtype"] = rng.choice(["float64", "float32", "int64", "int32", "int8", "bool", "uint8", "complex128"])
            if a.dtype.kind == "c" and np.dtype(p["dtype"]).kind != "c":
                return False
            if a.dtype.kind == "f" and np.dtype(p["dtype"]).kind in "iu":
                # float->int casts of negative/NaN/out-of-range values are UB-ish: keep to non-lossy
                if not np.all(np.isfinite(a)) or np.any(a < 0) or np.any(a > 100):
                    return False
            if a.dtype.kind in "iu" and np.dtype(p["dtype"]).kind in "iu":
                pass
        elif op == "where":
            c = self._add({"op": rng.choice(["greater", "less_equal"]), "in": [i], "p": {"scalar": 2}}) if a.dtype.kind in "iuf" else None
            if c is None:
                return False
            j = self._add(self.new_leaf(shape=list(a.shape), dtype=str(a.dtype)))
            if j is None:
                return False
            ins = [c, i, j] if rng.random() < 0.5 else [c, j, i]
        elif op == "clip":
            if a.dtype.kind not in "iuf":
                return False
            lo, hi = sorted([rng.randint(0, 6), rng.randint(0, 12)])
            if rng.random() < 0.7:
                p["min"] = lo
            if rng.random() < 0.7:
                p["max"] = hi
        elif op in ("tril", "triu"):
            if nd < 2:
                return False
            p["k"] = rng.randint(-3, 3)
        elif op == "pad":
            if nd == 0:
                return False
            p["mode"] = rng.choice(["constant", "constant", "symmetric"])
            if p["mode"] == "constant":
                p["pad_width"] = [[rng.randint(0, 3), rng.randint(0, 3)] for _ in range(nd)]
                if rng.random() < 0.5:
                    p["constant_values"] = rng.randint(0, 9)
            else:
                p["pad_width"] = [[rng.randint(0, max(0, min(3, d))), rng.randint(0, max(0, min(3, d)))] for d in a.shape]
        return self._add({"op": op, "in": ins, "p": p}) is not None

    def _factor_shape(self, n):
        rng = self.rng
        k = rng.choice([1, 2, 2, 3])
        shape = []
        rem = n
        for _ in range(k - 1):
            divs = [d for d in range(1, rem + 1) if rem % d == 0]
            d = rng.choice(divs)
            shape.append(d)
            rem //= d
        shape.append(rem)
        rng.shuffle(shape)
        return shape

    def fam_index(self):
        rng = self.rng
        i = self.pick_array(lambda v: v.ndim >= 1)
        if i is None:
            i = self._add(self.new_leaf(ndim=rng.choice([1, 2, 3])))
            if i is None:
                return False
        a = self._vals[i]
        if a.ndim == 0:
            return False
        if rng.random() < 0.15:
            ax = rng.randrange(a.ndim)
            if a.shape[ax] == 0:
                return False
            idx = [rng.randrange(-a.shape[ax], a.shape[ax]) for _ in range(rng.randint(1, 6))]
            return self._add({"op": "take", "in": [i], "p": {"indices": idx, "axis": ax}}) is not None
        if rng.random() < 0.12:
            # new axes mixed with reversed / strided slices (the order in which indexing applies its steps matters)
            key = []
            for d in a.shape:
                if rng.random() < 0.45:
                    key.append(None)
                rr = rng.random()
                if rr < 0.55 and d > 0:
                    key.append(slice(rng.choice([None, None, rng.randint(-d, d)]), rng.choice([None, None, rng.randint(-d - 1, d)]), rng.choice([-1, -1, -2, -3])))
                elif rr < 0.7 and d > 0:
                    key.append(rng.randrange(-d, d))
                elif rr < 0.85:
                    key.append(slice(None, None, rng.choice([None, 2])))
                else:
                    key.append(slice(None))
            if rng.random() < 0.3:
                key.append(None)
            return self._add({"op": "index", "in": [i], "p": {"key": enc_key(key)}}) is not None
        key = []
        used_arr = False
        dims = list(a.shape)
        ell_at = rng.randrange(len(dims) + 1) if rng.random() < 0.15 else None
        for k, d in enumerate(dims):
            if ell_at == k:
                key.append(Ellipsis)
                break
            r = rng.random()
            if r < 0.08:
                key.append(None)
            r = rng.random()
            if d == 0:
                key.append(slice(None))
            elif r < 0.18:
                key.append(rng.randrange(-d, d))
            elif r < 0.3 and not used_arr:
                used_arr = True
                n = rng.randint(1, min(6, d + 2))
                arr = [rng.randrange(-d, d) for _ in range(n)]
                if rng.random() < 0.4:
                    arr = sorted(set(x % d for x in arr))
                key.append(arr)
            elif r < 0.45:
                key.append(slice(None))
            else:
                start = rng.choice([None, rng.randint(-d - 1, d + 1)])
                stop = rng.choice([None, rng.randint(-d - 1, d + 1)])
                step = rng.choice([None, 1, 2, 2, 3, 4, -1, -2, self.maxdim + 3])
                key.append(slice(start, stop, step))
            if rng.random() < 0.15:
                break
        if rng.random() < 0.05:
            key.append(None)
        return self._add({"op": "index", "in": [i], "p": {"key": enc_key(key)}}) is not None

    def fam_linalg(self):
        rng = self.rng
        op = rng.choice(["matmul", "matmul", "tensordot", "tensordot", "vecdot", "outer", "qr", "svd", "svdvals"])
        fdt = rng.choice(["float64", "float64", "int64", "float32"])
        if rng.random() < 0.2 and op in ("matmul", "tensordot", "vecdot", "outer"):
            # the same array for both operands (different index expressions on one array)
            if op == "outer":
                i = self.pick_array(lambda v: v.ndim == 1 and v.size > 0 and v.dtype.kind in "iuf")
                if i is None:
                    i = self._add(self.new_leaf(ndim=1, dtype=fdt))
                return self._add({"op": "outer", "in": [i, i], "p": {}}) is not None
            if op == "vecdot":
                i = self.pick_array(lambda v: v.ndim >= 1 and v.size > 0 and v.dtype.kind in "iuf")
                if i is None:
                    i = self._add(self.new_leaf(ndim=rng.choice([1, 2]), dtype=fdt))
                a = self._vals[i]
                return self._add({"op": "vecdot", "in": [i, i], "p": {"axis": rng.randrange(-a.ndim, 0)}}) is not None
            n = rng.randint(2, self.maxdim)
            i = self.pick_array(lambda v: v.ndim == 2 and v.shape[0] == v.shape[1] and v.shape[0] > 1 and v.dtype.kind in "iuf")
            if i is None:
                i = self._add(self.new_leaf(shape=[n, n], dtype=fdt))
            if op == "matmul":
                return self._add({"op": "matmul", "in": [i, i], "p": {"operator": True} if rng.random() < 0.3 else {}}) is not None
            axes = rng.choice([1, [[0], [1]], [[1], [0]], [[0], [0]], [[0, 1], [1, 0]]])
            return self._add({"op": "tensordot", "in": [i, i], "p": {"axes": axes}}) is not None
        if op == "matmul":
            n, k, m = (rng.randint(1, self.maxdim) for _ in range(3))
            form = rng.choice(["2x2", "2x2", "1x2", "2x1", "1x1", "bx2", "bxb"])
            sa, sb = {
                "2x2": ([n, k], [k, m]), "1x2": ([k], [k, m]), "2x1": ([n, k], [k]), "1x1": ([k], [k]),
                "bx2": ([rng.randint(1, 3), n, k], [k, m]), "bxb": ([2, n, k], [rng.choice([1, 2]), k, m]),
            }[form]
            i = self.pick_array(lambda v: list(v.shape) == sa and v.dtype.kind in "iuf")
            if i is None:
                i = self._add(self.new_leaf(shape=sa, dtype=fdt))
            j = self._add(self.new_leaf(shape=sb, dtype=str(self._vals[i].dtype)))
            p = {}
            if rng.random() < 0.4:
                p["split_every"] = rng.choice([2, 3, 4])
            elif rng.random() < 0.3:
                p["operator"] = True
            return self._add({"op": "matmul", "in": [i, j], "p": p}) is not None
        if op == "tensordot":
            nd_a, nd_b = rng.choice([1, 2, 3, 3]), rng.choice([1, 2, 3, 3])
            nc = min(rng.choice([0, 1, 1, 2, 2, 2]), nd_a, nd_b)
            common = [rng.randint(1, 5) for _ in range(nc)]
            sa = [rng.randint(1, 5) for _ in range(nd_a - nc)] + common
            sb = common + [rng.randint(1, 5) for _ in range(nd_b - nc)]
            r = rng.random()
            if r < 0.25:
                axes = nc
            elif r < 0.35:
                axes = [list(range(nd_a - nc, nd_a)), list(range(nc))]
            else:
                # contracted axes at arbitrary positions and in arbitrary (also non-ascending) order, now and then
                # counted from the end
                free_a = [rng.randint(1, 5) for _ in range(nd_a - nc)]
                free_b = [rng.randint(1, 5) for _ in range(nd_b - nc)]
                pos_a = rng.sample(range(nd_a), nc)
                pos_b = rng.sample(range(nd_b), nc)
                sa, sb = [None] * nd_a, [None] * nd_b
                for c_, pa, pb in zip(common, pos_a, pos_b):
                    sa[pa] = c_
                    sb[pb] = c_
                it_a, it_b = iter(free_a), iter(free_b)
                sa = [x if x is not None else next(it_a) for x in sa]
                sb = [x if x is not None else next(it_b) for x in sb]
                if rng.random() < 0.3:
                    pos_a = [x - nd_a for x in pos_a]
                if rng.random() < 0.3:
                    pos_b = [x - nd_b for x in pos_b]
                axes = [pos_a, pos_b]
            i = self._add(self.new_leaf(shape=sa, dtype=fdt))
            j = self._add(self.new_leaf(shape=sb, dtype=fdt))
            p = {"axes": axes}
            if rng.random() < 0.4:
                p["split_every"] = rng.choice([2, 3])
            return self._add({"op": "tensordot", "in": [i, j], "p": p}) is not None
        if op == "vecdot":
            i = self.pick_array(lambda v: v.ndim >= 1 and v.dtype.kind in "iuf")
            if i is None:
                i = self._add(self.new_leaf(ndim=rng.choice([1, 2, 3]), dtype=fdt))
            a = self._vals[i]
            if a.ndim == 0:
                return False
            j = self._add(self.new_leaf(shape=list(a.shape), dtype=str(a.dtype)))
            return self._add({"op": "vecdot", "in": [i, j], "p": {"axis": rng.randrange(-a.ndim, 0)}}) is not None
        if op == "outer":
            i = self._add(self.new_leaf(ndim=1, dtype=fdt))
            j = self._add(self.new_leaf(ndim=1, dtype=fdt))
            return self._add({"op": "outer", "in": [i, j], "p": {}}) is not None
        # qr / svd: tall-skinny, single column chunk
        m = rng.randint(2, max(3, self.maxdim * 2))
        n = rng.randint(1, min(m, 4))
        # mostly float64; now and then a dtype NumPy promotes but cubed must either promote or refuse
        leaf = self.new_leaf(shape=[m, n], dtype=rng.choice(["float64"] * 6 + ["float32", "float32", "int64", "int8", "bool"]))
        r = rng.random()
        if r < 0.6 or self.hostile == 0:
            # supported layout: row chunks >= n and dividing nothing in particular, one column chunk
            leaf["p"]["chunks"] = [rng.randint(n, max(n, m)), n]
        elif r < 0.8:
            leaf["p"]["chunks"] = [rng.randint(1, m), n]
        i = self._add(leaf)
        k = self._add({"op": op, "in": [i], "p": {}})
        if k is None:
            return False
        if op in ("qr", "svd"):
            # consume the outputs; factors are unique only up to sign, so nothing is derived from them
            for t in range(len(self._vals[k])):
                self._opaque.add(self._add({"op": "pick", "in": [k], "p": {"i": t}}))
        else:
            self._opaque.add(k)  # svdvals: compared sorted
        return True

    def fam_concat(self):
        rng = self.rng
        op = rng.choice(["concat", "concat", "stack", "stack"])
        i = self.pick_array(lambda v: v.ndim >= (1 if op == "concat" else 0))
        if i is None or rng.random() < 0.3:
            i = self._add(self.new_leaf(ndim=rng.choice([1, 2, 2, 3])))
            if i is None:
                return False
        a = self._vals[i]
        if op == "concat" and a.ndim == 0:
            return False
        k = rng.randint(1, 3)
        ins = [i]
        if op == "concat":
            axis = rng.randrange(a.ndim)
            for _ in range(k):
                shape = list(a.shape)
                shape[axis] = rng.randint(0 if (rng.random() < 0.1 and self.allow_zero) else 1, self.maxdim)
                leaf = self.new_leaf(shape=shape, dtype=str(a.dtype))
                if rng.random() < 0.75 and self._nodes[i]["op"] == "leaf":
                    # same chunk size along the axis (cubed declines mismatching multi-chunk inputs)
                    leaf["p"]["chunks"][axis] = max(1, min(self._nodes[i]["p"]["chunks"][axis], max(1, shape[axis])))
                j = self._add(leaf)
                if j is None:
                    return False
                ins.append(j)
            if rng.random() < 0.3:
                axis -= a.ndim
            rng.shuffle(ins)
            return self._add({"op": "concat", "in": ins, "p": {"axis": axis}}) is not None
        axis = rng.randint(-a.ndim - 1, a.ndim)
        for _ in range(k):
            if rng.random() < 0.2:
                ins.append(i)
                continue
            leaf = self.new_leaf(shape=list(a.shape), dtype=str(a.dtype))
            if rng.random() < 0.4 and self._nodes[i]["op"] == "leaf" and a.ndim > 0:
                # different chunk sizes with the same number of blocks per axis (e.g. 9 = 4+4+1 = 3+3+3)
                ch = []
                for d, c in zip(a.shape, self._nodes[i]["p"]["chunks"]):
                    nb = -(-d // c) if c else 1
                    alts = [x for x in range(1, d + 1) if x != c and -(-d // x) == nb]
                    ch.append(rng.choice(alts) if alts else c)
                leaf["p"]["chunks"] = ch
            j = self._add(leaf)
            if j is None:
                return False
            ins.append(j)
        return self._add({"op": "stack", "in": ins, "p": {"axis": axis}}) is not None

    def fam_create(self):
        rng = self.rng
        f = rng.choice(["arange", "linspace", "eye", "full", "ones", "zeros", "like"])
        if f == "like":
            i = self.pick_array()
            if i is None:
                return False
            op = rng.choice(["zeros_like", "ones_like", "full_like"])
            p = {}
            if op == "full_like":
                p["fill"] = rng.randint(0, 7)
            if rng.random() < 0.3:
                p["dtype"] = rng.choice(["float64", "int32"])
            return self._add({"op": op, "in": [i], "p": p}) is not None
        p = {"fn": f}
        if f == "arange":
            step = rng.choice([1, 1, 2, 3, -1, 0.5, 0.1, 0.1, 0.3, -0.1, 0.7])
            start = rng.randint(-3, 5) if step not in (0.1, 0.3, -0.1, 0.7) or rng.random() < 0.7 else rng.choice([0.2, 1.1, -0.3])
            n = rng.randint(0 if self.allow_zero else 1, 2 * self.maxdim)
            p.update(start=start, stop=start + step * n if rng.random() < 0.7 else start + step * n + (0.5 * step if isinstance(step, float) else 0), step=step)
            size = n
            p["chunks"] = [rng.randint(1, max(1, size))]
        elif f == "linspace":
            num = rng.randint(0 if (rng.random() < 0.05 and self.allow_zero) else 1, 2 * self.maxdim)
            p.update(start=rng.randint(-3, 3), stop=rng.randint(4, 20), num=num, endpoint=rng.random() < 0.7)
            p["chunks"] = [rng.randint(1, max(1, num))]
        elif f == "eye":
            n = rng.randint(1, self.maxdim)
            m = rng.choice([None, rng.randint(1, self.maxdim)])
            p.update(n=n, m=m, k=rng.randint(-2, 2))
            p["chunks"] = draw_chunks(rng, [n, m or n])
            if rng.random() < 0.3:
                p["dtype"] = rng.choice(["int64", "float32", "bool"])
        else:
            shape = draw_shape(rng, self.maxdim, self.maxnd, allow_zero=self.allow_zero)
            p["shape"] = shape
            p["chunks"] = draw_chunks(rng, shape)
            p["dtype"] = rng.choice(["float64", "int64", "bool", "int8", "float32"])
            if f == "full":
                p["fill"] = rng.randint(0, 9) if p["dtype"] != "bool" else True
        return self._add({"op": "create", "in": [], "p": p}) is not None

    def fam_misc(self):
        rng = self.rng
        op = rng.choice(["diff", "diff", "searchsorted", "isin", "map_blocks", "map_overlap_sum3", "gufunc_mean_last", "gufunc_outer_add",
                         "groupby_sum", "groupby_blockwise_sum", "merge_chunks", "map_blocks_addid", "blocks", "blocks"])
        if op == "blocks":
            i = self._add(self.new_leaf(ndim=rng.choice([1, 1, 2, 3])))
            a = self._vals[i]
            if a.ndim == 0 or a.size == 0:
                return False
            ch = list(self._nodes[i]["p"]["chunks"])
            key = []
            used_arr = False
            for c, d in zip(ch, a.shape):
                nb = max(1, -(-d // c))
                r = rng.random()
                if r < 0.3:
                    key.append(rng.randrange(-nb, nb))
                elif r < 0.55 and not used_arr:
                    used_arr = True
                    key.append([rng.randrange(-nb, nb) for _ in range(rng.randint(1, 3))])
                elif r < 0.8:
                    key.append(slice(rng.choice([None, rng.randrange(nb)]), rng.choice([None, rng.randint(1, nb)]), rng.choice([None, None, 2])))
                else:
                    key.append(slice(None))
            return self._add({"op": "blocks", "in": [i], "p": {"key": enc_key(key), "in_chunks": ch}}) is not None
        if op in ("groupby_sum", "groupby_blockwise_sum"):
            nd = rng.choice([1, 2, 2, 3])
            dt = rng.choice(["int64", "float64", "int32"])
            i = self._add(self.new_leaf(ndim=nd, dtype=dt))
            a = self._vals[i]
            if a.ndim == 0 or a.size == 0:
                return False
            ax = rng.randrange(a.ndim)
            n = a.shape[ax]
            # groupby_reduction is not a public array function and leaves the one-group case unspecified (its
            # generic reduction squeezes every reduced axis of length one, so the group axis disappears when
            # num_groups == 1): the reduction form is drawn with at least two groups
            ng = rng.randint(2 if op == "groupby_sum" else 1, max(2, min(6, n + 1)))
            odt = "float64" if dt == "float64" else "int64"
            if op == "groupby_sum":
                lab = [rng.randrange(ng) for _ in range(n)]
                j = self._add(self.new_leaf(shape=[n], dtype="int64", labels=lab))
                xc = self._nodes[i]["p"]["chunks"][ax]
                if self.hostile == 0 or rng.random() < 0.6:
                    self._nodes[j]["p"]["chunks"] = [xc]
                pp = {"axis": rng.choice([ax, ax - a.ndim]), "num_groups": ng, "dtype": odt}
                if rng.random() < 0.4:
                    pp["split_every"] = draw_split_every(rng, 1)
                return self._add({"op": "groupby_sum", "in": [i, j], "p": pp}) is not None
            lab = sorted(rng.randrange(ng) for _ in range(n))
            pp = {"axis": ax, "num_groups": ng + rng.choice([0, 0, 1]), "dtype": odt, "by": lab}
            return self._add({"op": "groupby_blockwise_sum", "in": [i], "p": pp}) is not None
        if op == "merge_chunks":
            i = self._add(self.new_leaf(ndim=rng.choice([1, 2, 3])))
            a = self._vals[i]
            if a.ndim == 0:
                return False
            ch = self._nodes[i]["p"]["chunks"]
            new = [c * rng.choice([1, 1, 2, 3]) for c in ch]
            if self.hostile and rng.random() < 0.3:
                new[rng.randrange(len(new))] += 1
            return self._add({"op": "merge_chunks", "in": [i], "p": {"chunks": new}}) is not None
        if op == "map_blocks_addid":
            i = self._add(self.new_leaf(ndim=rng.choice([1, 2, 3]), dtype=rng.choice(["int64", "float64"])))
            a = self._vals[i]
            if a.ndim == 0 or a.size == 0:
                return False
            return self._add({"op": "map_blocks_addid", "in": [i], "p": {"in_chunks": list(self._nodes[i]["p"]["chunks"])}}) is not None
        if op == "diff":
            i = self.pick_array(lambda v: v.ndim >= 1 and v.dtype.kind in "iuf")
            if i is None:
                i = self._add(self.new_leaf(ndim=rng.choice([1, 2]), dtype="int64"))
            a = self._vals[i]
            if a.ndim == 0:
                return False
            ax = rng.randrange(-a.ndim, a.ndim)
            p = {"axis": ax, "n": rng.choice([1, 1, 2, 3])}
            ins = [i]
            if rng.random() < 0.3:
                shape = list(a.shape)
                shape[ax] = rng.randint(1, 3)
                j = self._add(self.new_leaf(shape=shape, dtype=str(a.dtype)))
                ins.append(j)
                p[rng.choice(["prepend", "append"])] = True
            return self._add({"op": "diff", "in": ins, "p": p}) is not None
        if op == "searchsorted":
            n = rng.randint(1, 3 * self.maxdim)
            dt = rng.choice(["int64", "float64"])
            i = self._add(self.new_leaf(shape=[n], dtype=dt, sorted=True))
            j = self._add(self.new_leaf(ndim=rng.choice([1, 1, 2]), dtype=dt))
            return self._add({"op": "searchsorted", "in": [i, j], "p": {"side": rng.choice(["left", "right"])}}) is not None
        if op == "isin":
            i = self.pick_array(lambda v: v.dtype.kind in "iu")
            if i is None:
                i = self._add(self.new_leaf(dtype="int64"))
            j = self._add(self.new_leaf(ndim=rng.choice([1, 2]), dtype=str(self._vals[i].dtype)))
            return self._add({"op": "isin", "in": [i, j], "p": {"invert": rng.random() < 0.3}}) is not None
        if op == "map_blocks":
            i = self.pick_array(lambda v: v.dtype.kind in "iuf")
            if i is None:
                return False
            return self._add({"op": "map_blocks", "in": [i], "p": {"fn": rng.choice(["double", "neg"])}}) is not None
        if op == "map_overlap_sum3":
            i = self.pick_array(lambda v: v.ndim >= 1 and v.dtype.kind in "if" and all(d >= 1 for d in v.shape))
            if i is None:
                i = self._add(self.new_leaf(ndim=rng.choice([1, 2]), dtype="int64"))
            a = self._vals[i]
            if a.ndim == 0 or a.size == 0:
                return False
            # cubed clamps halos at the array ends without padding interior blocks, so a halo deeper than
            # the smallest chunk is not a well-defined request for a shape-preserving function: keep
            # depth <= smallest chunk (known for leaves; depth 1 always satisfies it)
            depth = 1
            nd_ = self._nodes[i]
            if nd_["op"] == "leaf":
                mins = [min(c, d % c or c) for c, d in zip(nd_["p"]["chunks"], nd_["p"]["shape"]) if d > 0]
                if mins and min(mins) >= 2 and rng.random() < 0.5:
                    depth = 2
            return self._add({"op": "map_overlap_sum3", "in": [i], "p": {"depth": depth, "boundary": rng.choice([0, 0, 5])}}) is not None
        if op == "gufunc_mean_last":
            i = self.pick_array(lambda v: v.ndim >= 1 and v.dtype.kind == "f" and v.shape[-1] > 0)
            if i is None:
                i = self._add(self.new_leaf(ndim=2, dtype="float64"))
            a = self._vals[i]
            if a.ndim == 0 or a.shape[-1] == 0:
                return False
            if self.hostile == 0:
                # core dimension must be a single chunk: rechunk first
                ch = [1 if d <= 1 else rng.randint(1, d) for d in a.shape]
                ch[-1] = max(1, a.shape[-1])
                i = self._add({"op": "rechunk", "in": [i], "p": {"chunks": ch}})
            return self._add({"op": "gufunc_mean_last", "in": [i], "p": {}}) is not None
        if op == "gufunc_outer_add":
            n, m = rng.randint(1, 5), rng.randint(1, 5)
            i = self._add(self.new_leaf(shape=[n], dtype="int64"))
            j = self._add(self.new_leaf(shape=[m], dtype="int64"))
            self._nodes[i]["p"]["chunks"] = [n] if self.hostile == 0 else self._nodes[i]["p"]["chunks"]
            self._nodes[j]["p"]["chunks"] = [m] if self.hostile == 0 else self._nodes[j]["p"]["chunks"]
            return self._add({"op": "gufunc_outer_add", "in": [i, j], "p": {}}) is not None
        return False

    def fam_multi(self):
        rng = self.rng
        op = rng.choice(["unstack", "unstack", "broadcast_arrays", "meshgrid"])
        if op == "unstack":
            i = self.pick_array(lambda v: v.ndim >= 1 and 1 <= min(v.shape + (1,)) and v.shape[0] <= 6)
            if i is None:
                i = self._add(self.new_leaf(ndim=rng.choice([1, 2, 3])))
            a = self._vals[i]
            if a.ndim == 0:
                return False
            ax = rng.randrange(-a.ndim, a.ndim)
            if a.shape[ax] == 0 or a.shape[ax] > 6:
                return False
            k = self._add({"op": "unstack", "in": [i], "p": {"axis": ax}})
            if k is None:
                return False
            n = len(self._vals[k])
            for t in rng.sample(range(n), min(n, rng.randint(1, 3))):
                self._add({"op": "pick", "in": [k], "p": {"i": t}})
            return True
        if op == "broadcast_arrays":
            i = self.pick_array()
            if i is None:
                return False
            a = self._vals[i]
            shape = [d if rng.random() < 0.6 else 1 for d in a.shape]
            if rng.random() < 0.3:
                shape = [rng.randint(1, 3)] + shape
            j = self._add(self.new_leaf(shape=shape, dtype=str(a.dtype)))
            k = self._add({"op": "broadcast_arrays", "in": [i, j], "p": {}})
            if k is None:
                return False
            for t in range(2):
                self._add({"op": "pick", "in": [k], "p": {"i": t}})
            return True
        n = rng.randint(1, 3)
        ins = [self._add(self.new_leaf(ndim=1, dtype="int64")) for _ in range(n)]
        k = self._add({"op": "meshgrid", "in": ins, "p": {"indexing": rng.choice(["xy", "ij"])}})
        if k is None:
            return False
        for t in range(n):
            self._add({"op": "pick", "in": [k], "p": {"i": t}})
        return True

    def fam_random(self):
        rng = self.rng
        shape = draw_shape(rng, self.maxdim, min(self.maxnd, 3), allow_zero=False)
        if not shape:
            shape = [rng.randint(2, self.maxdim)]
        return self._add({"op": "random", "in": [], "p": {"shape": shape, "chunks": draw_chunks(rng, shape)}}) is not None

    def fam_combo(self):
        """Diamond with repeated edges: an operation whose sources are (a, a, y) with y derived from a
        by a deeper chain (fusion-relevant, and a MultiDiGraph with parallel edges)."""
        rng = self.rng
        i = self.pick_array(lambda v: v.ndim >= 1 and v.dtype.kind in "if" and v.size > 0)
        if i is None:
            i = self._add(self.new_leaf(ndim=rng.choice([1, 2]), dtype=rng.choice(["float64", "int64"])))
            if i is None:
                return False
        a = self._vals[i]
        if a.ndim == 0 or a.size == 0 or a.dtype.kind not in "if":
            return False
        y = i
        for _ in range(rng.randint(1, 3)):
            r = rng.random()
            if r < 0.35:
                y = self._add({"op": "rechunk", "in": [y], "p": {"chunks": draw_chunks(rng, a.shape)}})
            elif r < 0.7:
                y = self._add({"op": rng.choice(["negative", "abs", "square"]), "in": [y], "p": {}})
            else:
                y = self._add({"op": rng.choice(["add", "multiply", "subtract"]), "in": [y], "p": {"scalar": rng.randint(1, 3)}})
            if y is None:
                return False
        form = rng.choice(["mul_add", "mul_add", "where", "stack", "concat"])
        if form == "mul_add":
            m = self._add({"op": "multiply", "in": [i, i], "p": {}})
            return m is not None and self._add({"op": "add", "in": [m, y], "p": {}}) is not None
        if form == "where":
            c = self._add({"op": "greater", "in": [i], "p": {"scalar": 2}})
            return c is not None and self._add({"op": "where", "in": [c, i, y], "p": {}}) is not None
        if form == "stack":
            return self._add({"op": "stack", "in": [i, i, y], "p": {"axis": rng.randint(0, a.ndim)}}) is not None
        return self._add({"op": "concat", "in": [i, y, i], "p": {"axis": rng.randrange(a.ndim)}}) is not None

    def fam_castchain(self):
        """Chain of single-input elementwise operations that ends in one whose result dtype differs from its
        input's and for which converting the input early would lose information (comparison with a scalar,
        signbit, abs/real/imag of complex): what map fusion (legacy and default) collapses into one task."""
        rng = self.rng
        i = self.pick_array(lambda v: v.dtype.kind in "ifc" and v.size > 0)
        if i is None or rng.random() < 0.4:
            i = self._add(self.new_leaf(ndim=rng.choice([1, 2, 2, 3]), dtype=rng.choice(["float64", "float64", "int64", "float32", "complex128", "int32"])))
            if i is None:
                return False
        a = self._vals[i]
        if a.size == 0 or a.dtype.kind not in "ifc":
            return False
        y = i
        for _ in range(rng.randint(1, 2)):
            r = rng.random()
            if r < 0.4:
                y = self._add({"op": rng.choice(["negative", "square", "positive"]), "in": [y], "p": {}})
            else:
                y = self._add({"op": rng.choice(["add", "multiply", "subtract"]), "in": [y], "p": {"scalar": rng.choice([2, 3]) if a.dtype.kind != "f" else rng.choice([2, 0.5, 2.5])}})
            if y is None:
                return False
        k = a.dtype.kind
        if k == "c":
            last = {"op": rng.choice(["abs", "real", "imag"]), "in": [y], "p": {}}
        elif k == "f" and rng.random() < 0.25:
            last = {"op": "signbit", "in": [y], "p": {}}
        else:
            last = {"op": rng.choice(["greater", "less_equal", "equal", "not_equal", "less"]), "in": [y],
                    "p": {"scalar": rng.choice([2, 3, 5]) if k == "i" else rng.choice([2, 2.5, -1.5, 0.5])}}
        z = self._add(last)
        if z is None:
            return False
        if rng.random() < 0.4:
            z = self._add({"op": rng.choice(["logical_not", "positive"]) if self._vals[z].dtype.kind == "b" else "negative", "in": [z], "p": {}})
        return z is not None

    def fam_rechunk(self):
        rng = self.rng
        i = self.pick_array(lambda v: v.ndim >= 1 and v.size > 0)
        if i is None:
            return False
        a = self._vals[i]
        p = {"chunks": draw_chunks(rng, a.shape)}
        if rng.random() < 0.3:
            p["method"] = True
        if rng.random() < 0.3:
            p["allow_irregular"] = rng.random() < 0.5
        return self._add({"op": "rechunk", "in": [i], "p": p}) is not None


def recipe_ops(recipe):
    return [n["op"] if n["op"] != "create" else "create:" + n["p"]["fn"] for n in recipe["nodes"]]


def is_nontrivial(recipe, vals):
    """Non-trivial: at least one non-leaf op and some output with more than one element or the
    recipe touches an array with more than one block."""
    ops = [n for n in recipe["nodes"] if n["op"] not in ("leaf", "pick")]
    if not ops:
        return False
    multi_block = any(
        n["op"] == "leaf" and any(c < d for c, d in zip(n["p"]["chunks"], n["p"]["shape"])) for n in recipe["nodes"]
    )
    return multi_block


def has_zero_size(np_vals):
    for v in np_vals.values():
        for x in v if isinstance(v, tuple) else (v,):
            if getattr(x, "size", 1) == 0:
                return True
    return False


# ---------------------------------------------------------------------------------------------
# parameter sweep: single-operation recipes that enumerate the discrete parameters of the public
# functions (axes, axis orders, positions of new axes, signs of steps ...) for 1-3 dimensions; the
# geometry (dimension sizes, chunking, dtype) of each case is drawn at random


def _sweep_specs():
    """-> list of (op, ndims of the inputs, params) ; params may contain callables of the drawn shapes"""
    import itertools

    S = []
    # tensordot: every ordered choice of contracted axes
    for nda in (1, 2, 3):
        for ndb in (1, 2, 3):
            for nc in range(0, min(2, nda, ndb) + 1):
                for pa in itertools.permutations(range(nda), nc):
                    for pb in itertools.permutations(range(ndb), nc):
                        S.append(("tensordot", (nda, ndb), {"axes": [list(pa), list(pb)], "_contract": (pa, pb)}))
    # indexing: per dimension {all, reversed, strided, reversed+strided, integer}, a new axis nowhere or at one position
    kinds = ("all", "rev", "step", "revstep", "int")
    for nd in (1, 2, 3):
        for combo in itertools.product(kinds, repeat=nd):
            for newat in [None] + list(range(nd + 1)):
                if nd == 3 and ((sum((kinds.index(c_) + 1) * (7**i_) for i_, c_ in enumerate(combo)) + (newat or 0) * 3) % 3):
                    continue
                S.append(("index", (nd,), {"_key": (combo, newat)}))
    for nd in (2, 3):
        for perm in itertools.permutations(range(nd)):
            S.append(("permute_dims", (nd,), {"axes": list(perm)}))
    for nd in (1, 2, 3):
        for s_ in range(-nd, nd):
            for d_ in range(-nd, nd):
                S.append(("moveaxis", (nd,), {"source": s_, "destination": d_}))
        for r in range(0, nd + 1):
            for axs in itertools.combinations(range(nd), r):
                ax = None if r == 0 else (axs[0] if r == 1 else list(axs))
                S.append(("flip", (nd,), {"axis": ax}))
                if r == 1:
                    S.append(("flip", (nd,), {"axis": axs[0] - nd}))
                for red in ("sum", "max", "mean", "prod", "any"):
                    for kd in (False, True):
                        S.append((red, (nd,), {"axis": ax, "keepdims": kd, "split_every": None}))
                if r >= 1:
                    S.append(("roll", (nd,), {"shift": [2, -1, 3][:r] if r > 1 else 2, "axis": list(axs) if r > 1 else axs[0]}))
        for ax in range(-nd, nd):
            for red in ("argmax", "argmin"):
                for kd in (False, True):
                    S.append((red, (nd,), {"axis": ax, "keepdims": kd, "split_every": None}))
            S.append(("cumulative_sum", (nd,), {"axis": ax}))
            S.append(("diff", (nd,), {"axis": ax, "n": 1}))
            S.append(("diff", (nd,), {"axis": ax, "n": 2}))
            S.append(("repeat", (nd,), {"repeats": 2, "axis": ax}))
            S.append(("take", (nd,), {"indices": [1, 0, -1], "axis": ax % nd}))
            S.append(("unstack", (nd,), {"axis": ax}))
            S.append(("concat", (nd, nd), {"axis": ax}))
        for ax in range(-nd - 1, nd + 1):
            S.append(("expand_dims", (nd,), {"axis": ax}))
            S.append(("stack", (nd, nd), {"axis": ax}))
        for ax in range(nd):
            for bw in ((1, 0), (0, 2), (2, 1)):
                pw = [[0, 0]] * nd
                pw = [list(bw) if k == ax else [0, 0] for k in range(nd)]
                S.append(("pad", (nd,), {"mode": "constant", "pad_width": pw, "constant_values": 7}))
    for k in range(-2, 3):
        S.append(("tril", (2,), {"k": k}))
        S.append(("triu", (2,), {"k": k}))
    for ax in (-1, -2, 0, 1):
        S.append(("vecdot", (2, 2), {"axis": ax}))
    # the blocks accessor: ordered block selections of a 1-d array with a short last block, and of a 2-d array
    for i_ in range(4):
        S.append(("blocks", (1,), {"_key_raw": [i_ - 4], "_in_shape": [10], "_in_chunks": [3]}))
        for j_ in range(4):
            if i_ != j_:
                S.append(("blocks", (1,), {"_key_raw": [[i_, j_]], "_in_shape": [10], "_in_chunks": [3]}))
    for k0 in ([1, 0], [0, 1], 1, slice(None, None, -1) if False else slice(0, 2)):
        for k1 in (slice(None), 2, [2, 0], slice(1, 3)):
            if isinstance(k0, list) and isinstance(k1, list):
                continue
            S.append(("blocks", (2,), {"_key_raw": [k0, k1], "_in_shape": [6, 5], "_in_chunks": [4, 2]}))
    # reshape: split a dimension / merge two dimensions, for every chunking of the dimension(s) involved
    for n in (6, 8, 10, 12):
        facts = [(a, n // a) for a in range(2, n) if n % a == 0]
        for a, b in facts:
            for c in range(1, n + 1):
                if (n * 31 + a * 7 + c) % 2:
                    continue
                S.append(("reshape", (1,), {"shape": [a, b], "_in_shape": [n], "_in_chunks": [c]}))
            for ca in range(1, a + 1):
                for cb in sorted({1, b, max(1, b // 2), max(1, b - 1)}):
                    S.append(("reshape", (2,), {"shape": [n], "_in_shape": [a, b], "_in_chunks": [ca, cb]}))
    return S


def param_sweep(seed, index=0, of=1):
    """Yields (recipe, np_vals, label) for the slice index/of of the enumerated parameter space."""
    specs = _sweep_specs()
    for n, (op, nds, p) in enumerate(specs):
        if n % of != index:
            continue
        rng = random.Random(seed * 1000003 + n)
        g = Gen(rng.getrandbits(40), allow_zero=False)
        p = dict(p)
        dt = rng.choice(["int64", "float64", "int64", "float32"]) if op not in ("any",) else "bool"
        if op in ("mean",):
            dt = "float64"
        shapes = [[rng.randint(2, 5) for _ in range(nd)] for nd in nds]
        if op == "tensordot":
            pa, pb = p.pop("_contract")
            for a_, b_ in zip(pa, pb):
                shapes[1][b_] = shapes[0][a_]
        elif op == "vecdot":
            shapes[1] = list(shapes[0])
        elif op == "concat":
            ax = p["axis"] % nds[0]
            shapes[1] = [d if k == ax else shapes[0][k] for k, d in enumerate(shapes[1])]
        elif op == "stack":
            shapes[1] = list(shapes[0])
        elif op == "index":
            combo, newat = p.pop("_key")
            key = []
            for k, (kind_, d) in enumerate(zip(combo, shapes[0])):
                if newat == k:
                    key.append(None)
                if kind_ == "all":
                    key.append(slice(None))
                elif kind_ == "rev":
                    key.append(slice(None, None, -1))
                elif kind_ == "step":
                    key.append(slice(rng.choice([None, 1]), None, 2))
                elif kind_ == "revstep":
                    key.append(slice(rng.choice([None, d - 1]), rng.choice([None, 0]), -2))
                else:
                    key.append(rng.randrange(-d, d))
            if newat == len(combo):
                key.append(None)
            p["key"] = enc_key(key)
        if "_in_shape" in p:
            shapes = [p.pop("_in_shape")]
        nodes = [g.new_leaf(shape=s, dtype=dt) for s in shapes]
        if "_in_chunks" in p:
            nodes[0]["p"]["chunks"] = p.pop("_in_chunks")
        if "_key_raw" in p:
            p["key"] = enc_key(p.pop("_key_raw"))
            p["in_chunks"] = list(nodes[0]["p"]["chunks"])
        if op in ("concat", "stack") and rng.random() < 0.5:
            nodes[1]["p"]["chunks"] = list(nodes[0]["p"]["chunks"]) if op == "stack" else nodes[1]["p"]["chunks"]
        nodes.append({"op": op, "in": list(range(len(shapes))), "p": p})
        vals = {}
        try:
            with warnings.catch_warnings():
                warnings.simplefilter("ignore")
                for i, nd_ in enumerate(nodes):
                    vals[i] = np_eval_node(nd_, vals)
                last = len(nodes) - 1
                outs = [last]
                if isinstance(vals[last], tuple):
                    outs = []
                    for t in range(len(vals[last])):
                        nodes.append({"op": "pick", "in": [last], "p": {"i": t}})
                        vals[len(nodes) - 1] = np_eval_node(nodes[-1], vals)
                        outs.append(len(nodes) - 1)
        except Exception:
            continue
        yield {"nodes": nodes, "outputs": outs}, vals, f"{op}:{n}"
