"""Thread-safe recording Callback (C13, C09)."""
import threading

from cubed.runtime.types import Callback


class Recorder(Callback):
    def __init__(self):
        self.lock = threading.Lock()
        self.events = []  # (kind, name, num_tasks)
        self.plan = None
        self.dag = None

    def _add(self, *e):
        with self.lock:
            self.events.append(e)

    def on_compute_start(self, event):
        self.plan = getattr(event, "plan", None)
        self.dag = event.dag
        self._add("compute_start", None, 0)

    def on_compute_end(self, event):
        self._add("compute_end", None, 0)

    def on_operation_start(self, event):
        self._add("op_start", event.name, 0)

    def on_operation_end(self, event):
        self._add("op_end", event.name, 0)

    def on_task_end(self, event):
        self._add("task_end", event.name, event.num_tasks)
