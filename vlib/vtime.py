"""Virtual time for asyncio: drives the real cubed scheduler with scripted futures at ~1 ms/scenario.

time.monotonic is replaced process-wide (the shard worker is a dedicated process); the event loop
is a SelectorEventLoop over a selector whose select(timeout) advances the virtual clock instead of
sleeping. select(None) with nothing scheduled means the loop would wait forever: Hang.
"""
from __future__ import annotations

import asyncio
import selectors
import time


class Hang(Exception):
    """The loop became idle (no timer, no ready callback) while the scheduler was still waiting."""


class VClock:
    def __init__(self):
        self.now = 1000.0
        self._orig = None

    def install(self):
        if self._orig is None:
            self._orig = time.monotonic
            time.monotonic = lambda: self.now

    def uninstall(self):
        if self._orig is not None:
            time.monotonic = self._orig
            self._orig = None


class VSelector(selectors.BaseSelector):
    def __init__(self, clock):
        self._real = selectors.DefaultSelector()
        self.clock = clock
        self.max_now = None

    def register(self, fileobj, events, data=None):
        return self._real.register(fileobj, events, data)

    def unregister(self, fileobj):
        return self._real.unregister(fileobj)

    def modify(self, fileobj, events, data=None):
        return self._real.modify(fileobj, events, data)

    def select(self, timeout=None):
        ready = self._real.select(0)
        if ready:
            return ready
        if timeout is None:
            raise Hang("event loop idle with the scheduler still waiting (would block forever)")
        if timeout > 0:
            self.clock.now += timeout
            if self.max_now is not None and self.clock.now > self.max_now:
                raise Hang(f"virtual time bound exceeded ({self.clock.now - 1000.0:.1f}s)")
        return []

    def close(self):
        self._real.close()

    def get_map(self):
        return self._real.get_map()

    def get_key(self, fileobj):
        return self._real.get_key(fileobj)


class RankedFuture(asyncio.Future):
    """Future whose position in a set iteration is scripted (small distinct hashes iterate in hash
    order), so that the order in which simultaneous completions are handled can be chosen."""

    _rank = 0

    def __hash__(self):
        return self._rank


def new_loop(clock, bound_s=10000.0):
    sel = VSelector(clock)
    sel.max_now = clock.now + bound_s
    loop = asyncio.SelectorEventLoop(sel)
    return loop
