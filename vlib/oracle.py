"""Comparison of a cubed result with the NumPy shadow."""
from __future__ import annotations

import numpy as np


def _tol(dt):
    dt = np.dtype(dt)
    if dt in (np.dtype("float32"), np.dtype("complex64")):
        return 2e-4
    return 1e-9


def compare(expected, got, mode="value"):
    """-> None if equal else a short description of the difference."""
    e = np.asarray(expected)
    g = np.asarray(got)
    if e.shape != g.shape:
        return f"shape differs: numpy {e.shape} cubed {g.shape}"
    if e.size == 0:
        return None
    if g.dtype.fields is not None:
        return f"structured dtype result {g.dtype}"
    ek, gk = e.dtype.kind, g.dtype.kind
    if ek in "fc" or gk in "fc":
        rtol = max(_tol(e.dtype) if ek in "fc" else 0, _tol(g.dtype) if gk in "fc" else 0)
        with np.errstate(all="ignore"):
            ef = e.astype(np.complex128 if "c" in (ek, gk) else np.float64)
            gf = g.astype(np.complex128 if "c" in (ek, gk) else np.float64)
            fin = np.isfinite(ef)
            scale = float(np.max(np.abs(ef[fin]))) if fin.any() else 1.0
            ok = np.isclose(gf, ef, rtol=rtol, atol=rtol * max(1.0, scale), equal_nan=True)
            if not ok.all() and ek in "fc" and gk in "fc" and e.dtype != g.dtype:
                # cubed and NumPy may carry a value in different precisions (cubed's nanmedian of float32 data is
                # declared float64): a value beyond the range of the narrower dtype is inf on one side and finite on
                # the other - the same value as far as the narrower dtype can express it
                lim = float(np.finfo(min(e.dtype, g.dtype, key=lambda d: np.finfo(d).bits)).max) * 0.999
                over = (np.isinf(ef) & np.isfinite(gf) & (np.abs(gf) > lim) & (np.sign(ef.real) == np.sign(gf.real))) | (
                    np.isinf(gf) & np.isfinite(ef) & (np.abs(ef) > lim) & (np.sign(ef.real) == np.sign(gf.real)))
                ok = ok | over
        if ok.all():
            return None
        bad = np.argwhere(~ok)
        i = tuple(int(x) for x in bad[0])
        return f"{int((~ok).sum())}/{e.size} elements differ; first at {i}: numpy {ef[i]!r} cubed {gf[i]!r}"
    if ek == "b" or gk == "b":
        ok = e.astype(bool) == g.astype(bool)
    else:
        # integers: compare as Python ints to be safe across signedness
        if ek == "u" or gk == "u":
            ok = e.astype(object) == g.astype(object)
            ok = np.asarray(ok, dtype=bool)
        else:
            ok = e.astype(np.int64) == g.astype(np.int64)
    if ok.all():
        return None
    bad = np.argwhere(~ok)
    i = tuple(int(x) for x in bad[0])
    return f"{int((~ok).sum())}/{e.size} elements differ; first at {i}: numpy {e[i]!r} cubed {g[i]!r}"


def _factor_tol(*factors):
    """Absolute tolerance for reconstruction checks, scaled to the precision the factors are stored in."""
    single = any(np.asarray(f).dtype in (np.float32, np.complex64) for f in factors)
    return 5e-4 if single else 1e-8


def compare_qr(a, q, r):
    a = np.asarray(a, dtype=np.float64)
    q = np.asarray(q)
    r = np.asarray(r)
    k = min(a.shape)
    if q.shape != (a.shape[0], k) or r.shape != (k, a.shape[1]):
        return f"qr shapes: A {a.shape} Q {q.shape} R {r.shape}"
    scale = max(1.0, float(np.abs(a).max()) if a.size else 1.0)
    tol = _factor_tol(q, r)
    if not np.allclose(q @ r, a, atol=tol * scale):
        return "Q @ R != A"
    if not np.allclose(q.T @ q, np.eye(k), atol=tol):
        return "Q not orthonormal"
    if not np.allclose(r, np.triu(r), atol=tol * scale):
        return "R not upper triangular"
    return None


def compare_svd(a, u, s, vh):
    a = np.asarray(a, dtype=np.float64)
    u, s, vh = np.asarray(u), np.asarray(s), np.asarray(vh)
    scale = max(1.0, float(np.abs(a).max()) if a.size else 1.0)
    try:
        rec = (u * s) @ vh
    except ValueError as e:
        return f"svd shapes: {u.shape} {s.shape} {vh.shape}: {e}"
    tol = max(1e-7, _factor_tol(u, s, vh))
    if rec.shape != a.shape or not np.allclose(rec, a, atol=tol * scale):
        return "U S Vh != A"
    es = np.linalg.svd(a, compute_uv=False)
    if s.shape != es.shape or not np.allclose(s, es, atol=tol * scale):
        return "singular values differ"
    return None
