"""Run a recipe under a configuration with the monitors on; return what was observed."""
from __future__ import annotations

import os
import shutil
import traceback
import warnings

import numpy as np

from vlib import advexec, blockshape, gen, oracle, storetrace

ALLOWED_EXC = ("ValueError", "TypeError", "NotImplementedError", "IndexError")


def exc_info(e):
    tb = traceback.extract_tb(e.__traceback__)
    frames = [(f.filename, f.lineno, f.name) for f in tb]
    cubed_frames = [f for f in frames if "/cubed/" in f[0]]
    last = cubed_frames[-1] if cubed_frames else (frames[-1] if frames else ("?", 0, "?"))
    return {
        "node": getattr(e, "_verif_node", None),
        "type": type(e).__name__,
        "mro": [c.__name__ for c in type(e).__mro__],
        "msg": str(e)[:400],
        "where": f"{last[0].split('/cubed/')[-1] if '/cubed/' in last[0] else last[0]}:{last[2]}",
        "cubed_funcs": [f[2] for f in cubed_frames][-12:],
    }


def make_spec(workdir, **over):
    import cubed

    kw = dict(work_dir=workdir, allowed_mem="2GB", reserved_mem=0)
    kw.update(over)
    return cubed.Spec(**kw)


def make_executor(name, opts=None):
    from cubed.runtime.create import create_executor

    opts = dict(opts or {})
    if name == "seq":
        return advexec.SeqExecutor(opts.get("policy"))
    if name == "processes":
        opts.setdefault("max_workers", 2)
    if name == "threads":
        opts.setdefault("max_workers", 4)
    return create_executor(name, opts)


def make_optimizer(o):
    """o: None | {"kind": "default"|"multi"|"simple"|"fuse_all"|"fuse_only", ...}"""
    if not o or o.get("kind") == "default":
        return None
    from functools import partial

    from cubed.core import optimization as opt

    k = o["kind"]
    if k == "multi":
        kw = {}
        if "max_total_source_arrays" in o:
            kw["max_total_source_arrays"] = o["max_total_source_arrays"]
        if "max_total_num_input_blocks" in o:
            kw["max_total_num_input_blocks"] = o["max_total_num_input_blocks"]
        return partial(opt.multiple_inputs_optimize_dag, **kw)
    if k == "simple":
        return opt.simple_optimize_dag
    if k == "fuse_all":
        return opt.fuse_all_optimize_dag
    raise KeyError(k)


def outputs_of(recipe, vals):
    outs = []
    for i in recipe["outputs"]:
        v = vals[i]
        outs.append(v)
    return outs


def run_recipe(recipe, cfg, workdir, monitors=("block", "trace"), expected=None, keep_vals=False, max_tasks=400, callbacks=None, executor=None):
    """cfg: {"executor": name, "executor_opts": {}, "optimize": bool, "optimizer": {...}, "spec": {...}}

    Returns observation record (JSON-able except 'results' np arrays).
    """
    import cubed

    storetrace.install()
    blockshape.install()
    rec = {"phase": "build", "exc": None, "entries": 0, "results": None, "declared": None}
    os.makedirs(workdir, exist_ok=True)
    spec = make_spec(workdir, **cfg.get("spec", {}))
    env = gen.BuildEnv(spec, workdir)
    try:
        with warnings.catch_warnings():
            warnings.simplefilter("ignore")
            vals = gen.cu_build(recipe, env)
    except Exception as e:
        rec["exc"] = exc_info(e)
        return rec
    outs = [vals[i] for i in recipe["outputs"]]
    rec["declared"] = [
        {"shape": list(o.shape), "dtype": str(o.dtype), "chunks": [list(c) for c in o.chunks], "name": o.name} for o in outs
    ]
    rec["phase"] = "plan"
    optf = None
    try:
        optf = make_optimizer(cfg.get("optimizer"))
        fp = cubed.plan(*outs, optimize_graph=cfg.get("optimize", True), optimize_function=optf)
        rec["plan"] = {
            "num_tasks": fp.num_tasks,
            "max_projected_mem": fp.max_projected_mem,
            "ops": sum(1 for _, d in fp.dag.nodes(data=True) if d.get("type") == "op"),
            "op_names": [d.get("op_name") for _, d in fp.dag.nodes(data=True) if d.get("type") == "op"],
        }
    except Exception as e:
        rec["exc"] = exc_info(e)
        return rec
    if max_tasks is not None and fp.num_tasks > max_tasks:
        rec["phase"] = "skipped"
        rec["skipped"] = f"plan has {fp.num_tasks} tasks > {max_tasks}"
        return rec
    rec["phase"] = "execute"
    inner = executor or make_executor(cfg.get("executor", "single-threaded"), cfg.get("executor_opts"))
    ex = advexec.Wrap(inner) if not isinstance(inner, advexec.SeqExecutor) else inner
    rec["_plan"] = fp if keep_vals else None
    if "block" in monitors:
        blockshape.start()
    if "trace" in monitors:
        storetrace.TRACE.start(digest=False)
    try:
        with warnings.catch_warnings():
            warnings.simplefilter("ignore")
            res = cubed.compute(
                *outs, executor=ex, optimize_graph=cfg.get("optimize", True), optimize_function=optf,
                callbacks=callbacks, **cfg.get("compute_kw", {}),
            )
        rec["results"] = [np.asarray(r) for r in res]
        rec["phase"] = "done"
    except Exception as e:
        rec["exc"] = exc_info(e)
    finally:
        rec["entries"] = ex.entries
        if "block" in monitors:
            rec["blockwrites"] = blockshape.stop()
        if "trace" in monitors:
            rec["events"] = storetrace.TRACE.stop()
    if keep_vals:
        rec["_vals"] = vals
        rec["_outs"] = outs
    return rec


def check_values(recipe, np_vals, rec):
    """C01 oracle: compare each requested output with the NumPy shadow. -> list of diffs."""
    diffs = []
    if rec["results"] is None:
        return diffs
    for k, i in enumerate(recipe["outputs"]):
        e = np_vals[i]
        g = rec["results"][k]
        node = recipe["nodes"][i]
        d = None
        if node["op"] == "pick" and recipe["nodes"][node["in"][0]]["op"] in ("qr", "svd"):
            continue  # decompositions are checked as a whole below
        if node["op"] == "svdvals":
            d = oracle.compare(np.sort(np.asarray(e))[::-1], np.sort(np.asarray(g))[::-1])
        else:
            d = oracle.compare(e, g)
        if d:
            diffs.append({"output": i, "op": node["op"], "diff": d})
    # decompositions: reconstruction oracle over all factors
    parents = {}
    for k, i in enumerate(recipe["outputs"]):
        node = recipe["nodes"][i]
        if node["op"] == "pick" and recipe["nodes"][node["in"][0]]["op"] in ("qr", "svd"):
            parents.setdefault(node["in"][0], {})[node["p"]["i"]] = rec["results"][k]
    for par, got in parents.items():
        pn = recipe["nodes"][par]
        a = np_vals[pn["in"][0]]
        if pn["op"] == "qr" and len(got) == 2:
            d = oracle.compare_qr(a, got[0], got[1])
        elif pn["op"] == "svd" and len(got) == 3:
            d = oracle.compare_svd(a, got[0], got[1], got[2])
        else:
            d = None
        if d:
            diffs.append({"output": par, "op": pn["op"], "diff": d})
    return diffs


def localise(recipe, np_vals, cfg, workdir):
    """First node (topologically) whose cubed value is wrong while all its inputs are right.
    Each node is computed on its own with the same configuration."""
    import cubed

    spec = make_spec(workdir, **cfg.get("spec", {}))
    env = gen.BuildEnv(spec, workdir)
    good = {}
    try:
        vals = gen.cu_build(recipe, env)
    except Exception as e:
        return {"error": "rebuild failed: " + repr(e)[:200]}
    for i, node in enumerate(recipe["nodes"]):
        v = vals[i]
        if isinstance(v, tuple):
            good[i] = all(good.get(j, True) for j in node["in"])
            continue
        try:
            r = np.asarray(v.compute(executor=make_executor("single-threaded"), optimize_graph=cfg.get("optimize", True)))
        except Exception as e:
            return {"node": i, "op": node["op"], "p": node.get("p"), "raises": type(e).__name__ + ": " + str(e)[:200]}
        d = oracle.compare(np_vals[i], r)
        pn = recipe["nodes"][node["in"][0]]["op"] if node["op"] == "pick" else None
        if pn in ("qr", "svd"):
            d = None
        good[i] = d is None
        if d is not None and all(good.get(j, True) for j in node["in"]):
            src = node
            if node["op"] == "pick":
                src = recipe["nodes"][node["in"][0]]
            ins = [vals[j] for j in src["in"]]
            return {
                "node": i,
                "op": src["op"],
                "p": src.get("p"),
                "diff": d,
                "in_shapes": [list(getattr(a, "shape", ())) for a in ins if not isinstance(a, tuple)],
                "in_chunks": [[list(c) for c in a.chunks] for a in ins if not isinstance(a, tuple)],
                "in_dtypes": [str(a.dtype) for a in ins if not isinstance(a, tuple)],
            }
    return None


def cleanup(workdir):
    shutil.rmtree(workdir, ignore_errors=True)
