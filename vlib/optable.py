"""Which recipe ops the generator can produce (for 'function never exercised' reporting)."""
from vlib import gen


def expected_ops():
    ops = set(gen.UNARY) | set(gen.BINARY) | set(gen.REDUCE)
    ops |= {
        "bitwise_left_shift", "bitwise_right_shift", "nanmedian", "cumulative_sum", "cumulative_prod",
        "nancumsum", "nancumprod", "where", "clip", "astype", "broadcast_to", "concat", "stack", "unstack",
        "broadcast_arrays", "meshgrid", "expand_dims", "flip", "moveaxis", "permute_dims", "matrix_transpose",
        "T", "repeat", "reshape", "roll", "squeeze", "tile", "matmul", "tensordot", "vecdot", "outer", "index",
        "take", "diff", "searchsorted", "isin", "pad", "rechunk", "tril", "triu", "zeros_like", "ones_like",
        "full_like", "map_blocks", "map_overlap_sum3", "gufunc_mean_last", "gufunc_outer_add", "qr", "svd",
        "svdvals", "groupby_sum", "groupby_blockwise_sum", "merge_chunks", "map_blocks_addid", "blocks", "create:arange", "create:linspace", "create:eye", "create:full", "create:ones", "create:zeros",
    }
    return sorted(ops)
