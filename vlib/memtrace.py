"""Per-task allocation monitor (tracemalloc) with phase resolution.

Every task runs alone (vlib.advexec.SeqExecutor), so every traced byte belongs to it. Class-level
wrappers of zarr.Array.__getitem__/__setitem__ cut the task into segments read(i) / function /
write(j); for each segment the monitor records the live bytes at its start (relative to the task's
start), the peak inside it and the bytes of the region read or written. tracemalloc sees NumPy
buffers (NumPy registers its data allocations) and Python-object buffers of zarr/numcodecs; C-level
mallocs inside codecs are not seen (stated as an assumption).
"""
from __future__ import annotations

import gc
import tracemalloc

import numpy as np

_state = {"active": False, "base": 0, "segments": [], "installed": False, "runmax": 0}


def _region_bytes(arr, selection):
    try:
        if not isinstance(selection, tuple):
            selection = (selection,)
        n = 1
        for s, d in zip(selection, arr.shape):
            if isinstance(s, slice):
                n *= len(range(*s.indices(d)))
        for d in arr.shape[len(selection):]:
            n *= d
        return n * np.dtype(arr.dtype).itemsize
    except Exception:
        return 0


def _wrap(orig, kind):
    def method(self, selection, *a, **kw):
        if not _state["active"]:
            return orig(self, selection, *a, **kw)
        cur, peak = tracemalloc.get_traced_memory()
        # close the preceding 'function' segment
        _state["segments"].append({"kind": "function", "peak": peak - _state["base"]})
        tracemalloc.reset_peak()
        live0 = cur - _state["base"]
        try:
            return orig(self, selection, *a, **kw)
        finally:
            cur2, peak2 = tracemalloc.get_traced_memory()
            _state["segments"].append({
                "kind": kind, "live_at_start": live0, "peak": peak2 - _state["base"], "live_at_end": cur2 - _state["base"],
                "region_bytes": _region_bytes(self, selection),
            })
            tracemalloc.reset_peak()

    return method


def install():
    if _state["installed"]:
        return
    import zarr

    zarr.Array.__getitem__ = _wrap(zarr.Array.__getitem__, "read")
    zarr.Array.__setitem__ = _wrap(zarr.Array.__setitem__, "write")
    _state["installed"] = True
    if not tracemalloc.is_tracing():
        tracemalloc.start()


class TaskMemory:
    """task_hook for SeqExecutor: records per-task peaks and segments.

    Traced peaks have a deterministic floor but spike sporadically (a buffer held a little longer by
    zarr's IO thread), so a task that exceeds its projection is re-executed (tasks are idempotent) up
    to `retries` more times and the run with the smallest peak is kept: only reproducible excesses
    are reported."""

    def __init__(self, projected=None, retries=4):
        self.records = []
        self.projected = projected or {}
        self.retries = retries
        self.reruns = 0

    def _once(self, opname, item, thunk):
        gc.collect()
        tracemalloc.reset_peak()
        base = tracemalloc.get_traced_memory()[0]
        _state.update(active=True, base=base, segments=[])
        try:
            r = thunk()
        finally:
            cur, peak = tracemalloc.get_traced_memory()
            _state["active"] = False
            segs = _state["segments"] + [{"kind": "function", "peak": peak - base}]
        return r, {"op": opname, "item": item, "peak": max(s["peak"] for s in segs), "segments": segs}

    def __call__(self, opname, item, thunk):
        r, rec = self._once(opname, item, thunk)
        p = self.projected.get(opname)
        tries = 0
        while p is not None and rec["peak"] > p and tries < self.retries:
            tries += 1
            self.reruns += 1
            r, rec2 = self._once(opname, item, thunk)
            if rec2["peak"] < rec["peak"]:
                rec = rec2
        rec["measurements"] = tries + 1
        self.records.append(rec)
        return r


def counterfactual_peak(rec, read_factor=2.0):
    """Peak the task would have had if every read had grown memory by at most read_factor x region bytes
    (what the model allows a read: the chunk plus one copy)."""
    m = 0
    for s in rec["segments"]:
        if s["kind"] == "read":
            growth = s["peak"] - s["live_at_start"]
            m = max(m, s["live_at_start"] + min(growth, read_factor * s["region_bytes"]))
        else:
            m = max(m, s["peak"])
    return m
