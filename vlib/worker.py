"""Worker: runs one shard of a check in its own process and writes its observations as JSON."""
import faulthandler
import importlib
import json
import os
import sys
import traceback


def main():
    modname, specpath, outpath, workdir = sys.argv[1:5]
    with open(specpath) as f:
        spec = json.load(f)
    # generous wall-clock watchdog: dumps stacks (to the shard log) and exits; the driver
    # reports the missing result as INCONCLUSIVE, never as a violation.
    wd = int(spec.get("watchdog_s", 0) or 0)
    if wd:
        faulthandler.dump_traceback_later(wd, exit=True)
    os.environ["VERIF_WORKDIR"] = workdir
    mod = importlib.import_module(modname)
    try:
        if "replay" in spec:
            res = mod.replay(spec["replay"], workdir)
        else:
            res = mod.run_shard(spec, workdir)
    except BaseException:
        traceback.print_exc()
        sys.stdout.flush()
        os._exit(3)
    with open(outpath + ".tmp", "w") as f:
        json.dump(res, f, default=str)
    os.replace(outpath + ".tmp", outpath)
    sys.stdout.flush()
    if os.environ.get("COVERAGE_PROCESS_START"):  # development aid (tools/coverage.sh)
        try:
            import coverage

            c = coverage.Coverage.current()
            if c is not None:
                c.stop()
                c.save()
        except Exception:
            pass
    # skip interpreter teardown (atexit rmtree of cubed context dirs is done by the driver's
    # removal of the whole work root)
    os._exit(0)


if __name__ == "__main__":
    main()
