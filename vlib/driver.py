"""Driver: shards a check over subprocesses, merges what the monitors observed, classifies
violations against known_findings.json, writes evidence and replays, decides the exit code.

Exit codes: 0 held (all floors met) / 1 VIOLATION / 2 INCONCLUSIVE.
"""
from __future__ import annotations

import argparse
import hashlib
import importlib
import json
import os
import shutil
import subprocess
import sys
import tempfile
import time

HOME = os.environ.get("VERIF_HOME", os.path.dirname(os.path.dirname(os.path.abspath(__file__))))
NCPU = int(os.environ.get("VERIF_JOBS", os.cpu_count() or 4))


def _merge(results):
    m = {
        "evaluations": 0,
        "nontrivial": set(),
        "counters": {},
        "maxes": {},
        "hist": {},
        "sets": {},
        "samples": [],
        "violations": [],
        "inconclusive": [],
    }
    for r in results:
        m["evaluations"] += int(r.get("evaluations", 0))
        m["nontrivial"].update(r.get("nontrivial", []))
        for k, v in r.get("counters", {}).items():
            m["counters"][k] = m["counters"].get(k, 0) + v
        for k, v in r.get("maxes", {}).items():
            if k not in m["maxes"] or v > m["maxes"][k]:
                m["maxes"][k] = v
        for k, h in r.get("hist", {}).items():
            d = m["hist"].setdefault(k, {})
            for kk, vv in h.items():
                d[kk] = d.get(kk, 0) + vv
        for k, s in r.get("sets", {}).items():
            m["sets"].setdefault(k, set()).update(s)
        for s in r.get("samples", []):
            if len(m["samples"]) < 8:
                m["samples"].append(s)
        m["violations"].extend(r.get("violations", []))
        m["inconclusive"].extend(r.get("inconclusive", []))
    return m


def _run_shards(modname, specs, workroot, timeout):
    """Run each shard spec in its own subprocess (no multiprocessing.Pool: a dying child would
    hang it). Returns (results, problems)."""
    procs = []
    pending = list(enumerate(specs))
    results, problems = [], []
    running = []
    env = dict(os.environ)
    env.setdefault("OMP_NUM_THREADS", "1")
    env.setdefault("OPENBLAS_NUM_THREADS", "1")
    env.setdefault("MKL_NUM_THREADS", "1")
    while pending or running:
        while pending and len(running) < NCPU:
            i, spec = pending.pop(0)
            sdir = os.path.join(workroot, f"shard{i}")
            os.makedirs(sdir, exist_ok=True)
            sp = os.path.join(sdir, "spec.json")
            op = os.path.join(sdir, "out.json")
            with open(sp, "w") as f:
                json.dump(spec, f)
            logf = open(os.path.join(sdir, "log.txt"), "w")
            p = subprocess.Popen(
                [sys.executable, "-X", "faulthandler", "-m", "vlib.worker", modname, sp, op, sdir],
                stdout=logf,
                stderr=subprocess.STDOUT,
                env=env,
                cwd=HOME,
            )
            running.append((i, p, op, time.monotonic(), logf, sdir))
        time.sleep(0.05)
        still = []
        for i, p, op, t0, logf, sdir in running:
            rc = p.poll()
            if rc is None:
                if time.monotonic() - t0 > timeout:
                    p.kill()
                    p.wait()
                    logf.close()
                    problems.append(f"shard {i}: wall-clock watchdog ({timeout}s) fired")
                else:
                    still.append((i, p, op, t0, logf, sdir))
                continue
            logf.close()
            if rc == 0 and os.path.exists(op):
                with open(op) as f:
                    results.append(json.load(f))
            else:
                tail = ""
                try:
                    with open(os.path.join(sdir, "log.txt")) as f:
                        tail = f.read()[-1500:]
                except OSError:
                    pass
                problems.append(f"shard {i}: worker exited rc={rc}: {tail}")
        running = still
    return results, problems


def _load_findings():
    p = os.path.join(HOME, "known_findings.json")
    if not os.path.exists(p):
        return []
    with open(p) as f:
        return json.load(f).get("findings", [])


def _vhash(v):
    s = json.dumps(v.get("case", v), sort_keys=True, default=str)
    return hashlib.blake2b(s.encode(), digest_size=6).hexdigest()


def main(argv=None):
    ap = argparse.ArgumentParser()
    ap.add_argument("prop")
    ap.add_argument("--tier", default=os.environ.get("VERIF_TIER", "quick"), choices=["quick", "thorough"])
    ap.add_argument("--seed", type=int, default=int(os.environ.get("VERIF_SEED", "0") or 0))
    ap.add_argument("--replay", default=None)
    ap.add_argument("--keep", action="store_true")
    ap.add_argument("--no-evidence", action="store_true")
    args = ap.parse_args(argv)

    pid = args.prop.upper()
    modname = f"checks.{pid.lower()}"
    mod = importlib.import_module(modname)
    t0 = time.time()
    workroot = tempfile.mkdtemp(prefix=f"verif-{pid}-")
    try:
        if args.replay:
            with open(args.replay) as f:
                rep = json.load(f)
            specs = [{"replay": rep, "tier": args.tier, "seed": args.seed}]
        else:
            specs = mod.shards(args.tier, args.seed)
            for i, s in enumerate(specs):
                s.setdefault("tier", args.tier)
                s.setdefault("seed", args.seed * 1000003 + i)
                s.setdefault("shard", i)
        timeout = getattr(mod, "TIMEOUT", {"quick": 900, "thorough": 7200})[args.tier]
        results, problems = _run_shards(modname, specs, workroot, timeout)
        merged = _merge(results)
        fin = mod.finalize(args.tier, merged) if hasattr(mod, "finalize") else {}
    finally:
        if not args.keep:
            shutil.rmtree(workroot, ignore_errors=True)

    # ---- classify violations
    from vlib import findings as F

    open_findings = [f for f in _load_findings() if f.get("status") == "open"]
    matched = {}
    new = []
    for v in merged["violations"]:
        fid = F.classify(v, open_findings)
        if fid is None:
            new.append(v)
        else:
            matched.setdefault(fid, []).append(v)

    for f in open_findings:
        if f["id"] in matched:
            print(
                f"KNOWN-FINDING: property={pid} {f['id']}: {f['summary']} "
                f"(matched {len(matched[f['id']])} observations this run)"
            )

    os.makedirs(os.path.join(HOME, "replays"), exist_ok=True)
    seen = set()
    printed = 0
    for v in new:
        h = _vhash(v)
        if h in seen:
            continue
        seen.add(h)
        if printed >= 12:
            continue
        rp = os.path.join(HOME, "replays", f"{pid}-{v.get('kind', 'violation')}-{h}.json")
        with open(rp, "w") as f:
            json.dump(v, f, indent=1, default=str)
        print(f"VIOLATION property={pid} replay={rp}")
        print(f"  kind={v.get('kind')} {str(v.get('msg', ''))[:600]}")
        printed += 1

    # ---- floors / inconclusive
    incon = list(problems) + list(merged["inconclusive"])
    if not merged["samples"] and not args.replay:
        incon.append("no sample case was recorded by the check")
    for name, observed, required in fin.get("floors", []):
        if args.replay:
            break  # floors describe a whole run, not the replay of one case
        if observed < required:
            incon.append(f"floor not met: {name} observed={observed} required>={required}")

    wall = time.time() - t0
    if not args.replay and not args.no_evidence:
        cov = {
            "evaluations": merged["evaluations"],
            "distinct_nontrivial": len(merged["nontrivial"]),
            "rule": fin.get("rule", getattr(mod, "RULE", "")),
            "samples": merged["samples"] or [],
            "counters": merged["counters"],
            "maxes": merged["maxes"],
            "hist": merged["hist"],
            "sets": {k: sorted(v)[:400] for k, v in merged["sets"].items()},
            "set_sizes": {k: len(v) for k, v in merged["sets"].items()},
            "floors": [
                {"name": n, "observed": o, "required": r} for n, o, r in fin.get("floors", [])
            ],
            "shards": len(specs),
            "known_findings_matched": {k: len(v) for k, v in matched.items()},
            "inconclusive_reasons": incon[:20],
        }
        if fin.get("exhaustive") is not None:
            cov["exhaustive"] = bool(fin["exhaustive"])
        cov.update(fin.get("coverage_extra", {}))
        ev = {
            "property_id": pid,
            "tier": args.tier,
            "seed": args.seed,
            "level": getattr(mod, "LEVEL", "exploration"),
            "coverage": cov,
            "assumptions": fin.get("assumptions", getattr(mod, "ASSUMPTIONS", [])),
            "wall_s": round(wall, 2),
            "violations": len(seen),
            "verdict": "violated" if new else ("inconclusive" if incon else "held_on_observed"),
        }
        os.makedirs(os.path.join(HOME, "evidence"), exist_ok=True)
        with open(os.path.join(HOME, "evidence", f"{pid}.json"), "w") as f:
            json.dump(ev, f, indent=1, sort_keys=True, default=str)

    summ = {k: merged["counters"][k] for k in sorted(merged["counters"])}
    print(
        f"[{pid}] tier={args.tier} seed={args.seed} evaluations={merged['evaluations']} "
        f"distinct_nontrivial={len(merged['nontrivial'])} wall={wall:.1f}s"
    )
    print(f"[{pid}] observed: {json.dumps(summ)[:1500]}")
    if merged["maxes"]:
        print(f"[{pid}] maxes: {json.dumps(merged['maxes'])[:600]}")
    if new:
        print(f"[{pid}] VIOLATED: {len(seen)} distinct unexplained violations")
        return 1
    if incon:
        for r in incon[:10]:
            print(f"INCONCLUSIVE property={pid} reason={r[:800]}")
        return 2
    print(f"[{pid}] held on everything observed")
    return 0


if __name__ == "__main__":
    sys.exit(main())
