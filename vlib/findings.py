"""Mechanism predicates for open known findings (trusted base of the checks).

A violation record carries 'facts' written by the monitor (culprit function, argument geometry,
call history...). classify() returns the id of the open finding whose predicate matches, else None.
Predicates are keyed by mechanism, never by case hashes or random values.
"""
from __future__ import annotations

PREDICATES = {}


def predicate(name):
    def deco(f):
        PREDICATES[name] = f
        return f

    return deco


def classify(v, open_findings):
    for f in open_findings:
        props = f.get("properties") or [f.get("property")]
        if v.get("property") not in props:
            continue
        pred = PREDICATES.get(f.get("predicate"))
        if pred is None:
            continue
        try:
            try:
                hit = pred(v, f)
            except TypeError:
                hit = pred(v)
            if hit:
                return f["id"]
        except Exception:
            continue
    return None


@predicate("zero_size_chunk_arith")
def _zero_size(v):
    """cubed's chunk arithmetic is not robust for arrays with a zero-length dimension: chunks of such
    a dimension normalise to (0,), which unify_chunks / normalize_chunks / key_to_slices mishandle
    (ZeroDivisionError while building, or IndexError/ValueError inside a task)."""
    f = v.get("facts", {})
    if v.get("kind") == "block-shape-mismatch":
        # C12: blocks of arrays with a zero-length dimension (chunks normalise to (0,)) are written with
        # block shapes that do not match their (empty) region; no element is affected
        w = f.get("write", {})
        return 0 in tuple(w.get("shape", ())) and (0 in tuple(w.get("value", ())) or 0 in tuple(w.get("region", ())))
    if not f.get("has_zero_size"):
        return False
    if v.get("kind") == "bad-exception-type":
        return f.get("type") == "ZeroDivisionError" and "normalize_chunks" in " ".join(f.get("cubed_funcs", []) + [f.get("where", "")]) or f.get("type") == "ZeroDivisionError"
    if v.get("kind") == "failed-mid-run":
        return f.get("type") in ("IndexError", "ValueError")
    return False


@predicate("zero_size_rechunk_noop")
def _zero_rechunk(v):
    """rechunk of an array with a zero-length dimension is a deliberate no-op ('no data to move'), so the array
    keeps its old chunks; nanmedian relies on rechunk to bring the reduced axis into one chunk and, with
    keepdims=True, then declares one output element per remaining block along that axis (wrong shape)."""
    f = v.get("facts", {})
    c = f.get("culprit") or {}
    return (
        v.get("kind") == "value-mismatch"
        and c.get("op") == "nanmedian"
        and bool((c.get("p") or {}).get("keepdims"))
        and any(0 in tuple(sh) for sh in c.get("in_shapes", []))
        and str(c.get("diff", "")).startswith("shape differs")
    )


@predicate("pickle_name_collision")
def _pickle_names(v):
    """Array/op names come from per-process counters and are the identity of nodes when plans are
    merged (nx.compose_all): a deserialised array whose node names also occur in the plan of an array
    built in the receiving process is merged with it by name (wrong operand, cycle, or assertion)."""
    f = v.get("facts", {})
    return v.get("kind") in ("combination-fails", "wrong-value") and bool(f.get("name_collision")) and f.get("how") != "alone"


@predicate("mem_over_projection")
def _mem(v, finding=None):
    """C03 under-projections of the memory model, keyed by mechanism: configuration (compressor on/off),
    producing function, the kind of segment in which the peak occurred, and a ceiling on the ratio
    peak/projected (a larger excess than ever observed for this mechanism is a different violation)."""
    f = v.get("facts", {})
    p = (finding or {}).get("params", {})
    if v.get("kind") != "task-over-projection":
        return False
    comp = f.get("compressor") is not None
    if p.get("compressor") == "on" and not comp:
        return False
    if p.get("compressor") == "off" and comp:
        return False
    if "func_names" in p and f.get("func_name") not in p["func_names"]:
        return False
    if "segments" in p and f.get("peak_segment_kind") not in p["segments"]:
        return False
    if p.get("min_reads") and f.get("n_reads", 0) < p["min_reads"]:
        return False
    if p.get("fused_only") and not f.get("optimize"):
        return False
    return f.get("ratio", 99) <= p.get("ceiling", 0)
