"""Mechanism predicates for open known findings (trusted base of the checks).

A violation record carries 'facts' written by the monitor (culprit function, argument geometry,
call history...). classify() returns the id of the open finding whose predicate matches, else None.
Predicates are keyed by mechanism, never by case hashes or random values.
"""
from __future__ import annotations

PREDICATES = {}


def predicate(name):
    def deco(f):
        PREDICATES[name] = f
        return f

    return deco


def classify(v, open_findings):
    for f in open_findings:
        props = f.get("properties") or [f.get("property")]
        if v.get("property") not in props:
            continue
        pred = PREDICATES.get(f.get("predicate"))
        if pred is None:
            continue
        try:
            if pred(v):
                return f["id"]
        except Exception:
            continue
    return None
