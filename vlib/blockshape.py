"""Block-write monitor: class-level wrapper of zarr.Array.__setitem__.

Every block a cubed task writes goes through `write_proxy.open()[slices] = value` (structured
groups through ZarrV3ArrayGroup.set_basic_selection -> zarr.Array.__setitem__), so this one hook
sees them all. Recorded per write: array identity (store root, path), the region implied by the
selection (clipped to the array bounds exactly as Zarr does), the shape of the value, whether the
region is a union of whole stored chunks (shards when sharded) of the target grid, and the task.
"""
from __future__ import annotations

import threading

import numpy as np

from vlib.storetrace import CURRENT_TASK

_lock = threading.Lock()
RECORDS = []
ENABLED = False
_installed = False


def _grid_edges(arr):
    """Per dimension: sorted list of chunk boundaries (stored objects: shards if sharded)."""
    shape = arr.shape
    try:
        shards = getattr(arr, "shards", None)
    except Exception:
        shards = None
    try:
        chunks = shards if shards is not None else arr.chunks
        return [list(range(0, d, c)) + [d] if c > 0 else [0, d] for d, c in zip(shape, chunks)], tuple(chunks)
    except NotImplementedError:
        sizes = arr.read_chunk_sizes  # rectilinear
        edges = []
        for d, cs in zip(shape, sizes):
            e = [0]
            for c in cs:
                e.append(e[-1] + c)
            edges.append(e)
        return edges, tuple(tuple(c) for c in sizes)


def _sel_region(sel, shape):
    if not isinstance(sel, tuple):
        sel = (sel,)
    if any(s is Ellipsis for s in sel):
        i = [k for k, s in enumerate(sel) if s is Ellipsis][0]
        sel = sel[:i] + (slice(None),) * (len(shape) - len(sel) + 1) + sel[i + 1 :]
    sel = sel + (slice(None),) * (len(shape) - len(sel))
    starts, stops, rshape, ok = [], [], [], True
    for s, d in zip(sel, shape):
        if isinstance(s, slice):
            a, b, st = s.indices(d)
            if st != 1:
                ok = False
            starts.append(a)
            stops.append(max(a, b))
            rshape.append(len(range(a, b, st)))
        elif isinstance(s, (int, np.integer)):
            a = int(s) + (d if s < 0 else 0)
            starts.append(a)
            stops.append(a + 1)
            # integer index drops the dimension
        else:
            ok = False
            starts.append(0)
            stops.append(d)
            rshape.append(len(np.atleast_1d(s)))
    return starts, stops, tuple(rshape), ok


def _wrap(orig):
    def __setitem__(self, selection, value):
        if ENABLED:
            try:
                shape = tuple(self.shape)
                starts, stops, rshape, simple = _sel_region(selection, shape)
                vshape = tuple(np.shape(value))
                edges, grid = _grid_edges(self)
                whole = simple and all(
                    (a in e and b in e) or a == b for a, b, e in zip(starts, stops, edges)
                )
                sp = self.store_path
                root = getattr(sp.store, "root", None)
                rec = {
                    "root": str(root) if root is not None else f"mem:{id(sp.store):x}",
                    "path": sp.path,
                    "shape": shape,
                    "grid": grid,
                    "starts": starts,
                    "stops": stops,
                    "region": rshape,
                    "value": vshape,
                    "whole": bool(whole),
                    "dtype": str(self.dtype),
                    "vdtype": str(getattr(value, "dtype", type(value).__name__)),
                    "task": CURRENT_TASK.get(),
                }
                with _lock:
                    RECORDS.append(rec)
            except Exception as e:  # monitor must never change behaviour
                with _lock:
                    RECORDS.append({"monitor_error": repr(e)})
        return orig(self, selection, value)

    return __setitem__


def install():
    global _installed
    if _installed:
        return
    import zarr

    zarr.Array.__setitem__ = _wrap(zarr.Array.__setitem__)
    _installed = True


def start():
    global ENABLED
    with _lock:
        RECORDS.clear()
    ENABLED = True


def stop():
    global ENABLED
    ENABLED = False
    with _lock:
        out = list(RECORDS)
        RECORDS.clear()
    return out
