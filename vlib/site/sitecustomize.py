# Imported at interpreter start-up by worker processes spawned with this directory on PYTHONPATH.
# Installs the store tracer (JSONL sink named by VERIF_TRACE_FILE) so that store events of
# ProcessesExecutor workers are observed too.
import os

if os.environ.get("VERIF_TRACE_FILE"):
    try:
        import sys

        home = os.environ.get("VERIF_HOME")
        if home and home not in sys.path:
            sys.path.insert(0, home)
        from vlib import storetrace

        storetrace.install()
    except Exception as e:  # never break the worker
        import sys

        print("verif sitecustomize failed:", repr(e), file=sys.stderr)
