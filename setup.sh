#!/bin/sh
# Offline setup: put icontract (+deal) beside the repository's interpreter, under /verif/.deps.
# Nothing is fetched from a package index; the wheelhouse is on disk.
set -e
HERE="$(cd "$(dirname "$0")" && pwd)"
PY="${VERIF_PYTHON:-/venv/bin/python}"
mkdir -p "$HERE/.deps" "$HERE/evidence" "$HERE/replays"
if [ ! -d "$HERE/.deps/icontract" ]; then
  PIP_NO_INDEX=1 "$PY" -m pip install --quiet --no-index --find-links /opt/veriftools/wheels \
      --target "$HERE/.deps" icontract deal
fi
"$PY" -c "import sys; sys.path.insert(0, '$HERE/.deps'); import icontract; print('icontract', icontract.__version__)"
