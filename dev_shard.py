"""Dev helper: run one shard of a check inline and print the result summary."""
import json, sys, os, importlib, tempfile, shutil, time
sys.path.insert(0, os.path.dirname(os.path.abspath(__file__)))
def main():
    mod = importlib.import_module("checks." + sys.argv[1].lower())
    tier = sys.argv[2] if len(sys.argv) > 2 else "quick"
    n = int(sys.argv[3]) if len(sys.argv) > 3 else None
    seed = int(sys.argv[4]) if len(sys.argv) > 4 else 0
    spec = mod.shards(tier, seed)[0]
    spec.update(tier=tier, seed=seed, shard=0)
    spec.pop("watchdog_s", None)
    if n is not None:
        spec["n"] = n
    wd = tempfile.mkdtemp(prefix="verif-dev-")
    os.environ["VERIF_WORKDIR"] = wd
    t0 = time.time()
    try:
        res = mod.run_shard(spec, wd)
    finally:
        shutil.rmtree(wd, ignore_errors=True)
    v = res.pop("violations")
    res.pop("nontrivial", None); res.pop("samples", None)
    print(json.dumps(res, indent=1, default=str)[:6000])
    print("violations:", len(v), "time", round(time.time() - t0, 1))
    for x in v[:40]:
        print("-", x["kind"], x["msg"][:700])
    if v:
        with open("/tmp/dev_viol.json", "w") as f:
            json.dump(v, f, default=str)


if __name__ == '__main__':
    main()
