"""C09 - resume after a crash gives the same result and never trusts an incomplete array.

Fault enumeration: for each program, a crash is injected at every task boundary (harness executor
raises before the k-th task, k in [0, total]) and at every data-chunk write (the store tracer raises
at the w-th `set`, i.e. inside a task, including multi-chunk rechunk tasks and multi-output ops);
then compute(resume=True) is run on a real executor with the store tracer and a recording callback.
Oracles: clean-run values; store snapshot (file -> digest) taken after the crash; executed-operation
set of the resumed run; chunk grid from stored metadata.
Real crashes (os._exit inside a child process, resume from a fresh process) are part of the
thorough tier and sampled in quick.
"""
from __future__ import annotations

import json
import os
import random
import shutil
import subprocess
import sys

import numpy as np

from checks import _rc
from checks.c05 import expected_keys
from vlib import advexec, events as vevents, gen, runner, storetrace

PROPERTY = "C09"
LEVEL = "fault_enumeration"
TIMEOUT = {"quick": 1500, "thorough": 7200}
RULE = (
    "programs from vlib.gen.Gen (fused and unfused, multi-output ops, multi-stage rechunks, all-zero data so that "
    "'present' and 'computed' differ, structured intermediates) with <= 40 tasks, 40% of them saving the requested arrays (and sometimes an intermediate) "
    "to user paths with lazy store/to_zarr; crash points enumerated: every k in "
    "[0, total tasks] at task granularity and every w in [1, total data-chunk writes] at chunk-write granularity "
    "(sampled above 30 points per kind); resumed run on single-threaded / threads / processes. An evaluation = one "
    "(program, crash point, resume executor); non-trivial = the crash left a strict, non-empty subset of the data and "
    "the resumed run completed or refused up front; distinct by hash"
)
ASSUMPTIONS = [
    "tasks are deterministic (C06), so a recomputed chunk has the same bytes as before the crash",
    "an exception raised before the executor is entered, with no data-chunk mutation and all existing chunk files intact, counts as 'refused up front' (metadata re-writes by the completeness probe are counted, not judged)",
    "injected crashes are Python exceptions; real process death (os._exit in a child, resume in a fresh process) is sampled",
]
NSHARDS = {"quick": 16, "thorough": 16}
PER_SHARD = {"quick": 5, "thorough": 28}


def shards(tier, seed):
    return [
        {"n": PER_SHARD[tier], "maxdim": 7 if tier == "quick" else 9, "depth": 4 if tier == "quick" else 6,
         "real": 1 if tier == "quick" else 4, "maxpoints": 22 if tier == "quick" else 40, "watchdog_s": TIMEOUT[tier] - 30}
        for _ in range(NSHARDS[tier])
    ]


class CrashAtSet:
    """Injector: raise at the w-th data-chunk set (1-based)."""

    def __init__(self, w):
        self.w = w
        self.n = 0

    def __call__(self, phase, ev):
        if ev["op"] in ("set", "set_if_not_exists") and storetrace.classify_key(ev["key"])[0] == "data":
            self.n += 1
            if self.n == self.w:
                raise advexec.Crash(f"injected crash at data-chunk write {self.w} ({ev['key']})")
        return 0.0


def context_dirs(workdir):
    return [os.path.join(workdir, d) for d in os.listdir(workdir) if d.startswith("cubed-") or d == "istore"]


def wipe(workdir):
    for d in context_dirs(workdir):
        shutil.rmtree(d, ignore_errors=True)


def snapshot(workdir):
    snap = {}
    for d in context_dirs(workdir):
        for k, v in storetrace.dir_snapshot(d).items():
            snap[os.path.join(os.path.basename(d), k)] = v
    return snap


def is_chunk_file(rel):
    parts = rel.split(os.sep)
    # LocalStore writes '<key>.<uuid>.partial' and renames; a crash can leave such a file behind (not a chunk)
    return "c" in parts[1:] and not rel.endswith("zarr.json") and not rel.endswith(".partial")


def plan_ops(fp):
    """op name -> (num_tasks, [output array names], has 0-d output, has structured output)"""
    from cubed.storage.zarr import LazyZarrArray

    out = {}
    for n, d in fp.dag.nodes(data=True):
        if d.get("primitive_op") is None:
            continue
        outs = list(fp.dag.successors(n))
        zero_d = structured = False
        for o in outs:
            t = fp.dag.nodes[o].get("target")
            if t is not None and hasattr(t, "shape"):
                if len(t.shape) == 0:
                    zero_d = True
                if getattr(t.dtype, "fields", None) is not None:
                    structured = True
        out[n] = {"num_tasks": d["primitive_op"].num_tasks, "outputs": outs, "zero_d": zero_d, "structured": structured}
    return out


def judge_resume(label, crash_info, ops, S0, rec_events, trace, exc, entries, got, clean, workdir, res, facts):
    viols = []

    def V(kind, msg, **kw):
        viols.append({"kind": kind, "msg": f"crash {label}: {msg}", "facts": dict(facts, crash=label, **kw)})

    muts = [e for e in storetrace.mutations(trace)]
    if exc is not None:
        any_structured = any(o["structured"] for o in ops.values())
        data_muts = [e for e in muts if e.get("key") and storetrace.classify_key(e["key"])[0] == "data"]
        S1 = snapshot(workdir)
        intact = all(S1.get(rel) == dig for rel, dig in S0.items() if is_chunk_file(rel))
        if entries == 0 and not data_muts and intact:
            res["counters"]["refused_up_front"] += 1
            res["counters"]["metadata_writes_before_refusal"] += len(muts)
            _rc.bump(res["hist"]["exceptions"], "refused:" + exc["type"])
            if not any_structured:
                V("refused-without-reason", f"resume refused up front with {exc['type']} ({exc['msg'][:120]}) although the plan has no storage that cannot report completeness", exc=exc)
        else:
            V("resume-failed", f"resumed run raised {exc['type']} ({exc['msg'][:160]}) after execution started (entries={entries}, store mutations={len(muts)})", exc=exc)
        return viols
    res["counters"]["resumed_to_completion"] += 1
    # (a) same values as the uninterrupted run
    for k, (a, b) in enumerate(zip(clean, got)):
        if a.shape != b.shape or not np.array_equal(a, b, equal_nan=a.dtype.kind in "fc"):
            V("wrong-values-after-resume", f"requested array #{k} differs from the uninterrupted run")
            break
    # (b) nothing that existed was deleted or changed
    for e in trace:
        if e["op"] in ("delete", "delete_dir", "clear") and "err" not in e:
            V("delete-during-resume", f"store {e['op']} of {e.get('key')} during the resumed run", key=str(e.get("key")))
            break
    S1 = snapshot(workdir)
    for rel, dig in S0.items():
        if is_chunk_file(rel):
            res["counters"]["existing_chunks_tracked"] += 1
            if rel not in S1:
                V("existing-chunk-wiped", f"chunk file {rel} existed after the crash and is gone after the resumed run", file=rel)
                break
            if S1[rel] != dig:
                V("existing-chunk-changed", f"chunk file {rel} existed after the crash and has different content after the resumed run", file=rel)
                break
    # (c) completed operations are not recomputed; (d) skipped operations had complete outputs
    ran = {name for kind, name, _ in rec_events if kind == "op_start"}
    for op, info in ops.items():
        if op == "create-arrays":
            continue
        if op in crash_info["complete_ops"] and op in ran and not info["zero_d"]:
            V("completed-op-recomputed", f"operation {op} had finished all {info['num_tasks']} tasks before the crash and was executed again", op=op)
        if op not in ran:
            res["counters"]["ops_skipped_on_resume"] += 1
            if op not in crash_info["complete_ops"]:
                V("incomplete-op-skipped", f"operation {op} was skipped on resume although it had not finished before the crash", op=op)
    return viols


def run_program(recipe, optimize, workdir, rng, res, maxpoints, only=None, store_mode=None):
    import cubed

    storetrace.install()
    os.makedirs(workdir, exist_ok=True)
    spec = runner.make_spec(workdir)
    env = gen.BuildEnv(spec, workdir)
    viols = []
    try:
        vals = gen.cu_build(recipe, env)
        outs = [vals[i] for i in recipe["outputs"]]
        if store_mode:
            # requested arrays are saved to user paths (lazy store / to_zarr); optionally an intermediate too
            tdir = os.path.join(workdir, "cubed-targets")
            srcs = list(outs)
            mid = store_mode.get("mid")
            if mid is not None and mid not in recipe["outputs"] and hasattr(vals.get(mid), "zarray_maybe_lazy"):
                srcs.append(vals[mid])
            paths = [os.path.join(tdir, f"t{k}.zarr") for k in range(len(srcs))]
            if store_mode["api"] == "to_zarr":
                outs = [cubed.to_zarr(a, pth, compute=False) for a, pth in zip(srcs, paths)]
            else:
                outs = list(cubed.store(srcs, paths, compute=False))
        fp = cubed.plan(*outs, optimize_graph=optimize)
    except Exception:
        res["counters"]["declined"] += 1
        return viols
    if fp.num_tasks > (60 if store_mode else 40) or fp.num_tasks < 3:
        res["counters"]["skipped_size"] += 1
        return viols
    ops = plan_ops(fp)
    # clean run
    storetrace.TRACE.start(digest=False)
    ex0 = advexec.SeqExecutor({"order": "fwd"})
    try:
        clean = [np.asarray(r) for r in cubed.compute(*outs, executor=ex0, optimize_graph=optimize)]
    except Exception:
        storetrace.TRACE.stop()
        res["counters"]["declined"] += 1
        return viols
    ev = storetrace.TRACE.stop()
    nsets = sum(1 for e, a, c in storetrace.data_events(ev, op=("set",)) if "err" not in e)
    order = list(ex0.executed)
    total = len(order)
    res["counters"]["programs"] += 1
    facts = {"ops": gen.recipe_ops(recipe), "optimize": optimize, "store_mode": store_mode}
    if store_mode:
        res["counters"]["programs_saving_to_user_paths"] += 1
    points = [("task", k) for k in range(total + 1)]
    wpoints = [("write", w) for w in range(1, nsets + 1)]
    if len(points) > maxpoints:
        points = [points[0], points[-1]] + rng.sample(points[1:-1], maxpoints - 2)
    if len(wpoints) > maxpoints:
        wpoints = rng.sample(wpoints, maxpoints)
    allpoints = points + wpoints
    if only is not None:
        allpoints = [tuple(only["point"])]
    for kind, k in allpoints:
        wipe(workdir)
        # ---- crash run
        storetrace.TRACE.start(injector=CrashAtSet(k) if kind == "write" else None, digest=False)
        ex = advexec.SeqExecutor({"order": "fwd", "crash_before": k} if kind == "task" else {"order": "fwd"})
        crashed = False
        try:
            cubed.compute(*outs, executor=ex, optimize_graph=optimize)
        except advexec.Crash:
            crashed = True
        except Exception as e:
            # the crash exception may be wrapped by the storage layer
            crashed = "injected crash" in repr(e) or "Crash" in type(e).__name__
            if not crashed:
                storetrace.TRACE.stop()
                res["inconclusive"].append(f"crash run failed differently: {type(e).__name__}: {str(e)[:200]}")
                continue
        storetrace.TRACE.stop()
        if not crashed:
            res["inconclusive"].append(f"crash point {kind}:{k} was not reached")
            continue
        done = list(ex.executed)
        if kind == "write" and done:
            done = done[:-1]  # the task inside which the crash happened did not finish
        cnt = {}
        for op, item in done:
            cnt[op] = cnt.get(op, 0) + 1
        complete = {op for op, info in ops.items() if cnt.get(op, 0) >= info["num_tasks"]}
        S0 = snapshot(workdir)
        # ---- resumed run
        exname = only["resume_executor"] if only else rng.choice(["single-threaded", "single-threaded", "threads", "threads", "processes"] if rng.random() < 0.03 else ["single-threaded", "threads"])
        inner = runner.make_executor(exname, None)
        wex = advexec.Wrap(inner)
        recd = vevents.Recorder()
        storetrace.TRACE.start(digest=False)
        exc = got = None
        try:
            got = [np.asarray(r) for r in cubed.compute(*outs, executor=wex, optimize_graph=optimize, resume=True, callbacks=[recd])]
        except Exception as e:
            exc = runner.exc_info(e)
        trace = storetrace.TRACE.stop()
        res["evaluations"] += 1
        res["counters"]["crash_points"] += 1
        res["counters"]["task_granularity" if kind == "task" else "write_granularity"] += 1
        _rc.bump(res["hist"]["config"], f"resume:{exname}")
        label = f"{kind}:{k}/{total if kind == 'task' else nsets}"
        chunks0 = sum(1 for r in S0 if is_chunk_file(r))
        if 0 < chunks0 and (complete - {"create-arrays"}) != set(ops) - {"create-arrays"}:
            res["nontrivial"].append(gen.rhash([recipe, optimize, kind, k, exname]))
        v = judge_resume(label, {"complete_ops": complete}, ops, S0, recd.events, trace, exc, wex.entries, got, clean, workdir, res,
                         dict(facts, resume_executor=exname))
        for x in v:
            x["case"] = {"recipe": recipe, "optimize": optimize, "point": [kind, k], "resume_executor": exname, "store_mode": store_mode}
        viols.extend(v)
    return viols


# ---- real crashes: child process dies with os._exit at the w-th chunk write; a fresh process resumes

CHILD = r"""
import json, os, sys
sys.path[:0] = json.loads(os.environ["VERIF_SYSPATH"])
import numpy as np
from vlib import gen, runner, storetrace
import cubed
recipe = json.load(open(sys.argv[1])); workdir = sys.argv[2]; mode = sys.argv[3]; w = int(sys.argv[4]); optimize = sys.argv[5] == "1"
spec = runner.make_spec(workdir, intermediate_store=os.path.join(workdir, "istore"))
vals = gen.cu_build(recipe, gen.BuildEnv(spec, workdir))
outs = [vals[i] for i in recipe["outputs"]]
storetrace.install()
if mode == "crash":
    class Die:
        n = 0
        def __call__(self, phase, ev):
            if ev["op"] == "set" and storetrace.classify_key(ev["key"])[0] == "data":
                Die.n += 1
                if Die.n == w:
                    os._exit(77)
            return 0.0
    storetrace.TRACE.start(injector=Die(), digest=False)
    cubed.compute(*outs, executor=runner.make_executor("single-threaded"), optimize_graph=optimize)
    os._exit(0)
else:
    res = cubed.compute(*outs, executor=runner.make_executor("single-threaded"), optimize_graph=optimize, resume=(mode == "resume"))
    np.savez(sys.argv[6], *[np.asarray(r) for r in res])
    os._exit(0)
"""


def real_crash(recipe, optimize, workdir, rng, res):
    os.makedirs(workdir, exist_ok=True)
    rp = os.path.join(workdir, "recipe.json")
    with open(rp, "w") as f:
        json.dump(recipe, f)
    env = dict(os.environ, VERIF_SYSPATH=json.dumps([p for p in sys.path if p]))

    def child(mode, w, out=""):
        return subprocess.run([sys.executable, "-c", CHILD, rp, workdir, mode, str(w), "1" if optimize else "0", out],
                              capture_output=True, text=True, timeout=300, env=env)

    cleanp = os.path.join(workdir, "clean.npz")
    r = child("clean", 0, cleanp)
    if r.returncode != 0:
        res["counters"]["declined"] += 1
        return []
    shutil.rmtree(os.path.join(workdir, "istore"), ignore_errors=True)
    w = rng.randint(1, 12)
    r = child("crash", w)
    if r.returncode != 77:
        return []  # fewer than w writes: no crash happened
    resp = os.path.join(workdir, "res.npz")
    r = child("resume", 0, resp)
    res["evaluations"] += 1
    res["counters"]["real_process_crashes"] += 1
    case = {"recipe": recipe, "optimize": optimize, "real_crash_at_write": w}
    if r.returncode != 0:
        if "NotImplementedError" in r.stderr:
            return []
        return [{"kind": "resume-failed-after-real-crash", "msg": f"fresh-process resume after os._exit at write {w} failed: {r.stderr[-400:]}", "facts": {"ops": gen.recipe_ops(recipe)}, "case": case}]
    a = np.load(cleanp)
    b = np.load(resp)
    for k in a.files:
        if a[k].shape != b[k].shape or not np.array_equal(a[k], b[k], equal_nan=a[k].dtype.kind in "fc"):
            return [{"kind": "wrong-values-after-real-crash", "msg": f"fresh-process resume after os._exit at write {w}: requested array {k} differs from the uninterrupted run", "facts": {"ops": gen.recipe_ops(recipe)}, "case": case}]
    res["nontrivial"].append(gen.rhash([recipe, optimize, "real", w]))
    return []


EXTRA = ("programs_saving_to_user_paths", "metadata_writes_before_refusal", "programs", "crash_points", "task_granularity", "write_granularity", "refused_up_front", "resumed_to_completion",
         "existing_chunks_tracked", "ops_skipped_on_resume", "declined", "skipped_size", "real_process_crashes")
GEN_KW = {"allow_zero": False, "weights": {"rechunk": 10, "multi": 6, "reduce": 10, "binary": 12, "create": 6, "cum": 4, "linalg": 4}}


def make_recipe(rng, spec):
    g = gen.Gen(rng.getrandbits(48), maxdim=spec["maxdim"], depth=spec["depth"], **GEN_KW)
    g.maxblocks = 9
    recipe, np_vals = g.generate()
    return recipe


def run_shard(spec, workdir):
    rng = random.Random(spec["seed"])
    res = _rc.new_result(EXTRA)
    done = 0
    tries = 0
    while done < spec["n"] and tries < spec["n"] * 8:
        tries += 1
        recipe = make_recipe(rng, spec)
        optimize = rng.random() < 0.5
        wd = os.path.join(workdir, f"p{tries}")
        before = res["counters"]["programs"]
        store_mode = None
        if rng.random() < 0.4:
            cands = [i for i, n in enumerate(recipe["nodes"]) if n["op"] not in ("leaf", "pick", "create")]
            store_mode = {"api": rng.choice(["store", "to_zarr"]), "mid": rng.choice(cands) if cands and rng.random() < 0.5 else None}
        viols = run_program(recipe, optimize, wd, rng, res, spec["maxpoints"], store_mode=store_mode)
        shutil.rmtree(wd, ignore_errors=True)
        if res["counters"]["programs"] > before:
            done += 1
            for o in gen.recipe_ops(recipe):
                _rc.bump(res["hist"]["ops"], o)
            if done == 1 and spec.get("shard", 0) == 0:
                res["samples"].append({"recipe": recipe, "optimize": optimize})
        for v in viols:
            v.setdefault("property", PROPERTY)
        res["violations"].extend(viols)
    res["counters"]["recipes"] = tries
    for i in range(spec.get("real", 0)):
        for _ in range(6):
            recipe = make_recipe(rng, spec)
            if any(n["op"] == "random" for n in recipe["nodes"]):
                continue
            wd = os.path.join(workdir, f"real{i}")
            before = res["counters"]["real_process_crashes"]
            viols = real_crash(recipe, rng.random() < 0.5, wd, rng, res)
            shutil.rmtree(wd, ignore_errors=True)
            for v in viols:
                v.setdefault("property", PROPERTY)
            res["violations"].extend(viols)
            if res["counters"]["real_process_crashes"] > before:
                break
    return res


def replay(rep, workdir):
    res = _rc.new_result(EXTRA)
    case = rep["case"]
    if "real_crash_at_write" in case:
        class R:
            def randint(self, a, b):
                return case["real_crash_at_write"]
        viols = real_crash(case["recipe"], case["optimize"], os.path.join(workdir, "real"), R(), res)
    else:
        viols = run_program(case["recipe"], case["optimize"], os.path.join(workdir, "replay"), random.Random(0), res, 1000,
                            only={"point": case["point"], "resume_executor": case["resume_executor"]}, store_mode=case.get("store_mode"))
    for v in viols:
        v.setdefault("property", PROPERTY)
        v.setdefault("case", case)
    res["violations"] = viols
    return res


def finalize(tier, merged):
    c = merged["counters"]
    return {
        "rule": RULE,
        "floors": [
            ("crash points followed by a resumed run", c.get("crash_points", 0), 1200 if tier == "quick" else 7000),
            ("of which inside a task (chunk-write granularity)", c.get("write_granularity", 0), 400 if tier == "quick" else 2500),
            ("resumed runs that completed and were compared", c.get("resumed_to_completion", 0), 800 if tier == "quick" else 4500),
            ("programs whose requested arrays are saved to user paths with store/to_zarr", c.get("programs_saving_to_user_paths", 0), 15 if tier == "quick" else 75),
            ("real process crashes (os._exit) resumed from a fresh process", c.get("real_process_crashes", 0), 6 if tier == "quick" else 30),
        ],
        "assumptions": ASSUMPTIONS,
    }
