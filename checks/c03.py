"""C03 - projected memory is a true upper bound on what every task allocates.

Monitor: tracemalloc around every task (vlib.memtrace), one task at a time under the harness
executor, second run of each plan measured (the first warms imports and caches); phase-resolved
(read / function / write segments) so that an excess can be attributed. Oracle: the projected_mem
of the task's operation in the finalized plan that was executed. reserved_mem is set the way the
user guide says: from a calibration of the non-data cost of trivial tasks.
"""
from __future__ import annotations

import os
import random
import shutil
import warnings

import numpy as np

from checks import _rc
from vlib import advexec, memtrace
from vlib.gen import rhash

PROPERTY = "C03"
LEVEL = "exploration"
TIMEOUT = {"quick": 1500, "thorough": 7200}
RULE = (
    "programs from the PROGRAMS table (every operation family of the public API and compositions) x geometry {square, "
    "skinny, uneven last chunk, tall/wide with 6 blocks along an axis} at chunk sizes where data dominates (about 2 MB quick / 8 MB thorough) x dtype {float64, "
    "float32, int8->int64 widening} x optimize_graph {off, on (fused)} x zarr_compressor {None, default}; every task of every "
    "operation measured. An evaluation = one measured task; non-trivial = the task's projected memory exceeds reserved_mem by "
    "at least one chunk; distinct by hash of (program, geometry, dtype, optimize, compressor, op, task)"
)
ASSUMPTIONS = [
    "tracemalloc sees NumPy data buffers and Python-level buffers of zarr/numcodecs; C-level allocations inside compression codecs are not traced",
    "reserved_mem = max(300 kB, 4 x the calibrated non-data peak of trivial tasks) (the user guide's procedure with tracemalloc instead of process RSS)",
    "a task over its projection is re-executed up to 4 more times and the smallest peak kept (sporadic spikes of the traced peak are not reproducible excesses)",
    "an under-projection smaller than the slack of that operation/geometry is invisible; the evidence reports the maximum observed ratio per operation and compressor",
]
NSHARDS = {"quick": 16, "thorough": 16}


# ---------------------------------------------------------------------------------------------
# programs: name -> builder(xp, cubed, X, Y, V, W) where X, Y are 2-d inputs, V, W 1-d inputs

def _progs():
    import cubed
    import cubed.array_api as xp

    P = {}
    P["negative"] = lambda X, Y, V, W: xp.negative(X)
    P["add"] = lambda X, Y, V, W: X + Y
    P["chain"] = lambda X, Y, V, W: xp.sqrt(xp.abs(X * 2 + Y) + 1)
    P["greater"] = lambda X, Y, V, W: X > 0.5
    P["astype_small"] = lambda X, Y, V, W: xp.astype(X, xp.int8) if X.dtype.kind != "i" else xp.astype(X, xp.float64)
    P["where"] = lambda X, Y, V, W: xp.where(X > 0.5, X, Y)
    P["sum_axis0"] = lambda X, Y, V, W: xp.sum(X, axis=0)
    P["sum_all"] = lambda X, Y, V, W: xp.sum(X)
    P["max_axis1"] = lambda X, Y, V, W: xp.max(X, axis=1)
    P["mean_axis1"] = lambda X, Y, V, W: xp.mean(xp.astype(X, xp.float64), axis=1)
    P["var_axis0"] = lambda X, Y, V, W: xp.var(xp.astype(X, xp.float64), axis=0)
    P["argmax_axis0"] = lambda X, Y, V, W: xp.argmax(X, axis=0)
    P["nanmean"] = lambda X, Y, V, W: cubed.nanmean(xp.astype(X, xp.float64), axis=0)
    P["cumsum"] = lambda X, Y, V, W: xp.cumulative_sum(X, axis=0)
    P["matmul"] = lambda X, Y, V, W: xp.matmul(X, xp.permute_dims(Y, (1, 0)))
    P["tensordot"] = lambda X, Y, V, W: xp.tensordot(X, xp.permute_dims(Y, (1, 0)), axes=1)
    P["transpose"] = lambda X, Y, V, W: xp.permute_dims(X, (1, 0))
    P["rechunk"] = lambda X, Y, V, W: X.rechunk((X.chunksize[0] * 2, max(1, X.chunksize[1] // 2)))
    P["rechunk_t"] = lambda X, Y, V, W: X.rechunk((max(1, X.chunksize[0] // 4), X.shape[1]))
    P["concat0"] = lambda X, Y, V, W: xp.concat([X, Y], axis=0)
    P["concat1"] = lambda X, Y, V, W: xp.concat([X, Y], axis=1)
    P["stack"] = lambda X, Y, V, W: xp.stack([X, Y])
    P["pad"] = lambda X, Y, V, W: cubed.pad(X, ((1, 1), (2, 2)), mode="constant")
    P["roll"] = lambda X, Y, V, W: xp.roll(X, 3, axis=0)
    P["flip"] = lambda X, Y, V, W: xp.flip(X, axis=0)
    P["index_step"] = lambda X, Y, V, W: X[::3, ::2]
    P["index_offset"] = lambda X, Y, V, W: X[5:-7, 3:]
    P["index_array"] = lambda X, Y, V, W: X[list(range(1, X.shape[0], 5)), :]
    P["repeat"] = lambda X, Y, V, W: xp.repeat(X, 2, axis=0)
    P["repeat_6"] = lambda X, Y, V, W: xp.repeat(X, 6, axis=0)
    P["repeat_8_ax1"] = lambda X, Y, V, W: xp.repeat(X, 8, axis=1)
    P["cumsum_ax1"] = lambda X, Y, V, W: xp.cumulative_sum(X, axis=1)
    P["tile"] = lambda X, Y, V, W: xp.tile(X, (2, 3))
    P["broadcast_to"] = lambda X, Y, V, W: xp.broadcast_to(X, (2,) + X.shape)
    P["outer"] = lambda X, Y, V, W: xp.linalg.outer(V, W)
    P["diff"] = lambda X, Y, V, W: xp.diff(X, axis=0)
    P["reshape"] = lambda X, Y, V, W: xp.reshape(X, (X.shape[0] * X.shape[1],))
    P["tril"] = lambda X, Y, V, W: xp.tril(X)
    P["expand_squeeze"] = lambda X, Y, V, W: xp.squeeze(xp.expand_dims(X, axis=0) * 2, axis=0)
    P["isin"] = lambda X, Y, V, W: xp.isin(X, V[:5])
    P["map_blocks"] = lambda X, Y, V, W: cubed.map_blocks(lambda b: b * 2, X, dtype=X.dtype)
    P["sum_of_product"] = lambda X, Y, V, W: xp.sum(X * Y, axis=1)
    P["sum_negative"] = lambda X, Y, V, W: xp.sum(xp.negative(X), axis=0)
    P["max_abs"] = lambda X, Y, V, W: xp.max(xp.abs(X), axis=1)
    P["mean_square"] = lambda X, Y, V, W: xp.mean(xp.astype(X, xp.float64) * 2.0, axis=0)
    P["vecdot"] = lambda X, Y, V, W: xp.vecdot(X, Y, axis=-1)
    # -- added in round 4: the rest of the public surface (linalg, creation, selection, nan-functions, multi-output,
    #    3-d, stores) and fused predecessors that narrow or are repeated
    from cubed.core.ops import merge_chunks

    P["qr"] = lambda X, Y, V, W: tuple(xp.linalg.qr(X[:, :48]))
    P["svdvals"] = lambda X, Y, V, W: xp.linalg.svdvals(X[:, :48])
    P["map_overlap"] = lambda X, Y, V, W: cubed.map_overlap(lambda b: b[1:-1, 1:-1] * 2, X, dtype=X.dtype, chunks=X.chunks, depth=1, boundary=0)
    P["take"] = lambda X, Y, V, W: xp.take(X, xp.asarray(list(range(0, X.shape[0], 3)), spec=X.spec), axis=0)
    P["merge_chunks"] = lambda X, Y, V, W: merge_chunks(X, (X.chunksize[0] * 2, X.chunksize[1]))
    P["random"] = lambda X, Y, V, W: cubed.random.random(X.shape, chunks=X.chunksize, spec=X.spec)
    P["eye"] = lambda X, Y, V, W: xp.eye(X.shape[0], X.shape[1], dtype=X.dtype, chunks=X.chunksize, spec=X.spec)
    P["linspace"] = lambda X, Y, V, W: xp.linspace(0.0, 1.0, X.shape[0] * 64, chunks=(X.chunksize[0] * 64,), spec=X.spec)
    P["arange"] = lambda X, Y, V, W: xp.arange(X.shape[0] * 64, chunks=(X.chunksize[0] * 64,), spec=X.spec)
    P["full_like"] = lambda X, Y, V, W: xp.full_like(X, 3) + X
    P["std_axis1"] = lambda X, Y, V, W: xp.std(xp.astype(X, xp.float64), axis=1)
    P["prod_axis0"] = lambda X, Y, V, W: xp.prod(X, axis=0)
    P["all_gt"] = lambda X, Y, V, W: xp.all(X > 0, axis=0)
    P["any_and"] = lambda X, Y, V, W: xp.any(xp.logical_and(X > 1, Y > 1), axis=1)
    P["nanmax"] = lambda X, Y, V, W: cubed.nanmax(xp.astype(X, xp.float64), axis=1)
    P["nansum"] = lambda X, Y, V, W: cubed.nansum(xp.astype(X, xp.float64), axis=0)
    P["cumprod"] = lambda X, Y, V, W: xp.cumulative_prod(X, axis=0)
    P["nancumsum"] = lambda X, Y, V, W: cubed.nancumsum(xp.astype(X, xp.float64), axis=1)
    P["triu"] = lambda X, Y, V, W: xp.triu(X, k=1)
    P["searchsorted"] = lambda X, Y, V, W: xp.searchsorted(xp.cumulative_sum(xp.abs(V)), W[: V.shape[0] // 2])
    P["gufunc_mean"] = lambda X, Y, V, W: cubed.apply_gufunc(
        lambda a: np.mean(a, axis=-1), "(i)->()", X.rechunk((max(1, X.chunksize[0] // 2), X.shape[1])), output_dtypes=np.float64)
    P["clip"] = lambda X, Y, V, W: xp.clip(X, 1, 50)
    P["pow"] = lambda X, Y, V, W: xp.pow(xp.astype(X, xp.float64), 2.0)
    P["logaddexp"] = lambda X, Y, V, W: xp.logaddexp(xp.astype(X, xp.float64), xp.astype(Y, xp.float64))
    P["to_zarr"] = lambda X, Y, V, W: cubed.to_zarr(X * 2, os.path.join(X.spec.work_dir, "out.zarr"), compute=False)
    P["stack_sum02"] = lambda X, Y, V, W: xp.sum(xp.stack([X, Y]), axis=(0, 2))
    P["stack_perm"] = lambda X, Y, V, W: xp.permute_dims(xp.stack([X, Y]), (2, 0, 1))
    P["stack_moveaxis"] = lambda X, Y, V, W: xp.moveaxis(xp.stack([X, Y]), 0, -1)
    P["meshgrid"] = lambda X, Y, V, W: tuple(xp.meshgrid(V[: X.shape[1]], W[: X.shape[1]]))
    P["broadcast_arrays"] = lambda X, Y, V, W: tuple(xp.broadcast_arrays(X, W))
    P["index_neg_step"] = lambda X, Y, V, W: X[::-1, :]
    P["index_int"] = lambda X, Y, V, W: X[:, 5]
    P["index_newaxis"] = lambda X, Y, V, W: X[None, 1:, :]
    P["concat_misaligned"] = lambda X, Y, V, W: xp.concat([X[1:, :], Y, X[:7, :]], axis=0)
    P["roll2"] = lambda X, Y, V, W: xp.roll(X, (3, 5), axis=(0, 1))
    P["diff2_prepend"] = lambda X, Y, V, W: xp.diff(X, n=2, axis=1, prepend=Y[:, :3])
    P["unstack"] = lambda X, Y, V, W: tuple(xp.unstack(X[:3, :]))
    P["nanmedian"] = lambda X, Y, V, W: cubed.nanmedian(xp.astype(X, xp.float64), axis=0)
    P["where_scalar"] = lambda X, Y, V, W: xp.where(X > 1, X, 0)
    P["outer_sum"] = lambda X, Y, V, W: xp.sum(xp.linalg.outer(V, W), axis=0)
    P["matmul_sum"] = lambda X, Y, V, W: xp.sum(xp.matmul(X, xp.permute_dims(Y, (1, 0))), axis=1)
    P["tensordot2"] = lambda X, Y, V, W: xp.tensordot(X, Y, axes=2)
    P["count_nonzero"] = lambda X, Y, V, W: xp.count_nonzero(X, axis=0)
    P["squeeze_sum_keep"] = lambda X, Y, V, W: xp.squeeze(xp.sum(X, axis=0, keepdims=True), axis=0)
    P["from_array"] = lambda X, Y, V, W: cubed.from_array(np.ones(X.shape, dtype=X.dtype), chunks=X.chunksize, spec=X.spec) + X
    # one fused predecessor with several sources feeding two arguments of its consumer
    P["sqdiff"] = lambda X, Y, V, W: (lambda d: d * d)(X - Y)
    P["sqdiff_sum"] = lambda X, Y, V, W: (lambda d: xp.sum(d * d, axis=0))(X - Y)
    P["where_repeated"] = lambda X, Y, V, W: (lambda d: xp.where(d > 1, d, d + d))(X + Y)
    P["three_way"] = lambda X, Y, V, W: (lambda d, e: d * e + d)(X - Y, X + Y)
    return P


PROG_NAMES = ["negative", "add", "chain", "greater", "astype_small", "where", "sum_axis0", "sum_all", "max_axis1", "mean_axis1",
              "var_axis0", "argmax_axis0", "nanmean", "cumsum", "matmul", "tensordot", "transpose", "rechunk", "rechunk_t", "concat0",
              "concat1", "stack", "pad", "roll", "flip", "index_step", "index_offset", "index_array", "repeat", "broadcast_to", "outer",
              "diff", "reshape", "tril", "expand_squeeze", "isin", "map_blocks", "sum_of_product", "vecdot", "sum_negative", "max_abs", "mean_square",
              "repeat_6", "repeat_8_ax1", "cumsum_ax1", "tile",
              "qr", "svdvals", "map_overlap", "take", "merge_chunks", "random", "eye", "linspace", "arange", "full_like", "std_axis1",
              "prod_axis0", "all_gt", "any_and", "nanmax", "nansum", "cumprod", "nancumsum", "triu", "searchsorted", "gufunc_mean", "clip",
              "pow", "logaddexp", "to_zarr", "stack_sum02", "stack_perm", "stack_moveaxis", "meshgrid", "broadcast_arrays",
              "index_neg_step", "index_int", "index_newaxis", "concat_misaligned", "roll2", "diff2_prepend", "unstack", "nanmedian",
              "where_scalar", "outer_sum", "matmul_sum", "tensordot2", "count_nonzero", "squeeze_sum_keep", "from_array",
              "sqdiff", "sqdiff_sum", "where_repeated", "three_way"]


MANY_BLOCKS_ALONG = {"sum_negative": "tall", "mean_square": "tall", "max_abs": "wide", "sum_of_product": "wide", "vecdot": "wide",
                     "sum_axis0": "tall", "var_axis0": "tall", "max_axis1": "wide", "mean_axis1": "wide", "argmax_axis0": "tall",
                     "nanmean": "tall", "cumsum": "tall", "cumsum_ax1": "wide", "sum_all": "tall",
                     "std_axis1": "wide", "prod_axis0": "tall", "all_gt": "tall", "any_and": "wide", "nanmax": "wide", "nansum": "tall",
                     "cumprod": "tall", "nancumsum": "wide", "sqdiff_sum": "tall", "count_nonzero": "tall", "matmul_sum": "wide",
                     "stack_sum02": "wide"}


def draw_case(rng, tier, idx):
    mb = 2 if tier == "quick" else 8
    dtype = rng.choice(["float64", "float64", "float32", "int8"])
    isz = np.dtype(dtype).itemsize
    n = int((mb * 2**20 / isz) ** 0.5)
    geom = rng.choice(["square", "skinny", "uneven", "tall", "wide"])
    prog = PROG_NAMES[idx % len(PROG_NAMES)]
    optimize = rng.random() < 0.5
    if prog in MANY_BLOCKS_ALONG and rng.random() < 0.6:
        # reductions and scans combine several blocks per task only when there are many blocks along their axis
        geom = MANY_BLOCKS_ALONG[prog]
        optimize = rng.random() < 0.75
    if geom == "tall":
        # many blocks along axis 0: reductions combine split_every blocks per task
        n2 = max(8, n // 2)
        chunks = (n2, n2 * 2)
        shape = (n2 * 6, n2 * 2)
    elif geom == "wide":
        n2 = max(8, n // 2)
        chunks = (n2 * 2, n2)
        shape = (n2 * 2, n2 * 6)
    elif geom == "square":
        chunks = (n, n)
        shape = (2 * n, 2 * n)
    elif geom == "skinny":
        chunks = (n * 4, max(8, n // 4))
        shape = (n * 8, max(8, n // 4) * 2)
    else:
        chunks = (n, n)
        shape = (2 * n + n // 3, n + n // 2)
    return {"prog": prog, "shape": list(shape), "chunks": list(chunks), "dtype": dtype, "geom": geom,
            "optimize": optimize, "compressor": rng.choice([None, None, "auto"]), "seed": rng.getrandbits(20)}


def make_inputs(case, wd, spec):
    import zarr

    import cubed

    rs = np.random.RandomState(case["seed"])
    arrs = []
    comp = {} if case["compressor"] == "auto" else {"compressors": None}
    for k, (shape, chunks) in enumerate([(case["shape"], case["chunks"]), (case["shape"], case["chunks"]),
                                          ((case["shape"][0],), (case["chunks"][0],)), ((case["shape"][1],), (case["chunks"][1],))]):
        p = os.path.join(wd, "inputs", f"in{k}.zarr")
        z = zarr.create_array(store=p, shape=tuple(shape), dtype=case["dtype"], chunks=tuple(chunks), overwrite=True, **comp)
        if np.dtype(case["dtype"]).kind == "f":
            z[...] = rs.random_sample(tuple(shape)).astype(case["dtype"])
        else:
            z[...] = rs.randint(0, 100, size=tuple(shape)).astype(case["dtype"])
        arrs.append(cubed.from_zarr(p, spec=spec))
    return arrs


_CAL = {}


def calibrate(workdir):
    """Non-data cost of a task: traced peak of trivial one-element tasks (user guide: measure, then reserve)."""
    if "reserved" in _CAL:
        return _CAL["reserved"]
    import cubed
    import cubed.array_api as xp

    memtrace.install()
    wd = os.path.join(workdir, "cal")
    spec = cubed.Spec(work_dir=wd, allowed_mem="2GB", reserved_mem=0)
    a = xp.asarray(np.ones((2, 2)), chunks=(1, 1), spec=spec)
    prog = xp.sum(xp.negative(a) + 1, axis=0)
    peak = 0
    for rep in range(3):
        tm = memtrace.TaskMemory()
        prog.compute(executor=advexec.SeqExecutor({"task_hook": tm}), optimize_graph=False)
        if rep:
            peak = max([peak] + [r["peak"] for r in tm.records])
    _CAL["nondata_peak"] = peak
    _CAL["reserved"] = max(300_000, int(-(-4 * peak // 100_000) * 100_000))
    shutil.rmtree(wd, ignore_errors=True)
    return _CAL["reserved"]


def run_case(case, workdir, res):
    import cubed

    warnings.simplefilter("ignore")
    memtrace.install()
    reserved = calibrate(workdir)
    wd = os.path.join(workdir, "c")
    shutil.rmtree(wd, ignore_errors=True)
    os.makedirs(wd, exist_ok=True)
    spec = cubed.Spec(work_dir=wd, allowed_mem="4GB", reserved_mem=reserved, zarr_compressor=case["compressor"])
    viols = []
    try:
        X, Y, V, W = make_inputs(case, wd, spec)
        out = _progs()[case["prog"]](X, Y, V, W)
        outs = list(out) if isinstance(out, (tuple, list)) else [out]
        fp = cubed.plan(*outs, optimize_graph=case["optimize"])
    except Exception as e:
        res["counters"]["declined"] += 1
        _rc.bump(res["hist"]["exceptions"], f"{case['prog']}:{type(e).__name__}")
        return viols
    proj = {n: d["primitive_op"].projected_mem for n, d in fp.dag.nodes(data=True) if d.get("primitive_op") is not None}
    opinfo = {n: (d.get("op_name"), d.get("func_name")) for n, d in fp.dag.nodes(data=True) if d.get("primitive_op") is not None}
    try:
        cubed.compute(*outs, executor=advexec.SeqExecutor({}), optimize_graph=case["optimize"], _return_in_memory_array=False)
        tm = memtrace.TaskMemory(projected=proj)
        cubed.compute(*outs, executor=advexec.SeqExecutor({"task_hook": tm}), optimize_graph=case["optimize"], _return_in_memory_array=False)
    except Exception as e:
        res["counters"]["declined"] += 1
        _rc.bump(res["hist"]["exceptions"], f"{case['prog']}:run:{type(e).__name__}")
        return viols
    chunk_bytes = int(np.prod(case["chunks"])) * np.dtype(case["dtype"]).itemsize
    key = f"{case['prog']}|{'fused' if case['optimize'] else 'unfused'}|{case['compressor']}"
    worst = {}
    for r in tm.records:
        p = proj.get(r["op"])
        if p is None:
            continue
        res["evaluations"] += 1
        res["counters"]["tasks_measured"] += 1
        ratio = r["peak"] / p if p else 0.0
        res["maxes"][f"ratio:{key}"] = max(res["maxes"].get(f"ratio:{key}", 0.0), round(ratio, 3))
        res["maxes"]["max_ratio_uncompressed" if case["compressor"] is None else "max_ratio_compressed"] = max(
            res["maxes"].get("max_ratio_uncompressed" if case["compressor"] is None else "max_ratio_compressed", 0.0), round(ratio, 3))
        if p - reserved >= chunk_bytes:
            res["nontrivial"].append(rhash([case, r["op"], str(r["item"])]))
            res["counters"]["data_dominated_tasks"] += 1
        if r["peak"] > p:
            w = worst.get(r["op"])
            if w is None or r["peak"] > w["peak"]:
                worst[r["op"]] = r
    for op, r in worst.items():
        p = proj[op]
        cf = memtrace.counterfactual_peak(r)
        reads = [s for s in r["segments"] if s["kind"] == "read"]
        over_seg = max(r["segments"], key=lambda s: s["peak"])
        facts = {
            "prog": case["prog"], "compressor": case["compressor"], "optimize": case["optimize"], "op_name": opinfo[op][0], "func_name": opinfo[op][1],
            "peak": r["peak"], "projected": p, "ratio": round(r["peak"] / p, 3), "counterfactual_peak": int(cf),
            "counterfactual_within_projection": bool(cf <= p), "peak_segment_kind": over_seg["kind"], "n_reads": len(reads),
            "segments": [{k: (int(v) if isinstance(v, (int, float)) else v) for k, v in s.items()} for s in r["segments"][:12]],
            "geom": case["geom"], "dtype": case["dtype"],
        }
        viols.append({"property": PROPERTY, "kind": "task-over-projection",
                      "msg": f"{case['prog']} ({'fused' if case['optimize'] else 'unfused'}, compressor={case['compressor']}, {case['geom']} {case['dtype']}): task {r['item']} of {op} "
                             f"({opinfo[op][1]}) peaked at {r['peak']} bytes > projected_mem {p} (ratio {r['peak'] / p:.2f}); peak in a {over_seg['kind']} segment; "
                             f"counterfactual (reads capped at 2x region) {int(cf)}",
                      "facts": facts, "case": case})
    res["counters"]["programs"] += 1
    res["counters"]["task_reruns_after_excess"] += tm.reruns
    _rc.bump(res["hist"]["ops"], case["prog"])
    _rc.bump(res["hist"]["config"], f"{'fused' if case['optimize'] else 'unfused'}/{case['compressor']}")
    shutil.rmtree(wd, ignore_errors=True)
    return viols


def shards(tier, seed):
    ns = NSHARDS[tier]
    return [{"index": i, "of": ns, "n": 16 if tier == "quick" else 36, "watchdog_s": TIMEOUT[tier] - 30} for i in range(ns)]


EXTRA = ("task_reruns_after_excess", "programs", "tasks_measured", "data_dominated_tasks", "declined", "calibrated_reserved_mem", "calibrated_nondata_peak")


def run_shard(spec, workdir):
    rng = random.Random(spec["seed"])
    res = _rc.new_result(EXTRA)
    for k in range(spec["n"]):
        case = draw_case(rng, spec["tier"], spec["index"] + k * spec["of"] + spec["seed"] % 7)
        res["violations"].extend(run_case(case, workdir, res))
        if k == 0 and spec["index"] == 0:
            res["samples"].append(case)
    res["counters"]["calibrated_reserved_mem"] = 0
    res["maxes"]["calibrated_reserved_mem"] = _CAL.get("reserved", 0)
    res["maxes"]["calibrated_nondata_peak"] = _CAL.get("nondata_peak", 0)
    return res


def replay(rep, workdir):
    res = _rc.new_result(EXTRA)
    res["violations"] = run_case(rep["case"], workdir, res)
    for k, v in sorted(res["maxes"].items()):
        print("replay", k, v)
    return res


def finalize(tier, merged):
    c = merged["counters"]
    ratios = {k[6:]: v for k, v in merged["maxes"].items() if k.startswith("ratio:")}
    return {
        "rule": RULE,
        "floors": [
            ("tasks measured", c.get("tasks_measured", 0), 2000 if tier == "quick" else 4500),
            ("tasks whose projection is dominated by data (>= 1 chunk above reserved_mem)", c.get("data_dominated_tasks", 0), 1200 if tier == "quick" else 3000),
            ("distinct programs exercised", len(merged["hist"].get("ops", {})), 80),
        ],
        "coverage_extra": {"max_ratio_peak_over_projected_by_program": ratios},
        "assumptions": ASSUMPTIONS,
    }
