"""Shared shard runner for the recipe-driven checks (C01, C12, C17, ...)."""
from __future__ import annotations

import os
import random
import shutil

from vlib import gen, runner

CONFIGS = [
    {"executor": "single-threaded", "optimize": True},
    {"executor": "single-threaded", "optimize": False},
    {"executor": "threads", "optimize": True},
    {"executor": "threads", "optimize": False},
]


def new_result(extra_counters=()):
    c = {"runs": 0, "raised": 0, "completed": 0, "numpy_rejected_candidates": 0, "recipes": 0, "harness_errors": 0}
    for k in extra_counters:
        c[k] = 0
    return {
        "evaluations": 0,
        "nontrivial": [],
        "counters": c,
        "hist": {"ops": {}, "config": {}, "exceptions": {}},
        "samples": [],
        "violations": [],
        "maxes": {},
        "sets": {},
        "inconclusive": [],
    }


def bump(d, k, n=1):
    d[k] = d.get(k, 0) + n


def cfg_name(cfg):
    s = f"{cfg.get('executor', 'single-threaded')}/{'opt' if cfg.get('optimize', True) else 'noopt'}"
    if cfg.get("optimizer"):
        s += "/" + cfg["optimizer"].get("kind", "?")
    return s


def default_cfgs(rng, proc_rate=0.04):
    cfgs = [CONFIGS[0], rng.choice(CONFIGS[1:])]
    if rng.random() < proc_rate:
        cfgs.append({"executor": "processes", "optimize": rng.random() < 0.5})
    return cfgs


def is_harness_error(rec):
    e = rec.get("exc")
    return bool(e) and not e.get("cubed_funcs") and rec["phase"] == "build"


def run_cases(spec, workdir, *, prop, judge, gen_kw=None, choose_cfgs=default_cfgs, monitors=(), extra_counters=(),
              nontrivial=None, run_kw=None, per_run=None):
    rng = random.Random(spec["seed"])
    res = new_result(extra_counters)
    gen_kw = dict(gen_kw or {})
    gen_kw.setdefault("maxdim", spec.get("maxdim", 9))
    gen_kw.setdefault("depth", spec.get("depth", 4))
    for k in range(spec["n"]):
        g = gen.Gen(rng.getrandbits(48), **gen_kw)
        recipe, np_vals = g.generate()
        res["counters"]["numpy_rejected_candidates"] += g.rejected
        res["counters"]["recipes"] += 1
        for o in gen.recipe_ops(recipe):
            bump(res["hist"]["ops"], o)
        cfgs = choose_cfgs(rng)
        for cfg in cfgs:
            wd = os.path.join(workdir, f"r{k}")
            kw = dict(run_kw or {})
            if per_run is not None:
                kw.update(per_run(recipe, cfg))
            rec = runner.run_recipe(recipe, cfg, wd, monitors=monitors, **kw)
            res["counters"]["runs"] += 1
            res["evaluations"] += 1
            bump(res["hist"]["config"], cfg_name(cfg))
            if rec["phase"] == "skipped":
                bump(res["counters"], "skipped_too_many_tasks")
                shutil.rmtree(wd, ignore_errors=True)
                continue
            if rec["exc"] is not None:
                res["counters"]["raised"] += 1
                bump(res["hist"]["exceptions"], f"{rec['phase']}:{rec['exc']['type']}")
                if is_harness_error(rec):
                    res["counters"]["harness_errors"] += 1
                    res["inconclusive"].append(f"harness error while building recipe: {rec['exc']}")
            else:
                res["counters"]["completed"] += 1
            viols = judge(recipe, np_vals, cfg, rec, res, wd) or []
            for v in viols:
                v.setdefault("property", prop)
                v.setdefault("case", {"recipe": recipe, "cfg": cfg})
            res["violations"].extend(viols)
            nt = nontrivial(recipe, np_vals, cfg, rec) if nontrivial else (rec["exc"] is None and gen.is_nontrivial(recipe, np_vals))
            if nt:
                res["nontrivial"].append(gen.rhash([recipe, cfg]))
            rec.pop("_vals", None)
            rec.pop("_outs", None)
            rec.pop("_plan", None)
            shutil.rmtree(wd, ignore_errors=True)
        if k < 2 and spec.get("shard", 0) == 0:
            res["samples"].append({"recipe": recipe, "configs": cfgs})
    if spec.get("sweep_of"):
        # bounded-exhaustive part: this shard's slice of the enumerated discrete parameters of single operations
        res["counters"].setdefault("param_sweep_cases", 0)
        sweep_seed = (spec["seed"] // 1000003) * 64 + spec.get("shard", 0) // spec["sweep_of"]
        for recipe, np_vals, label in gen.param_sweep(sweep_seed, spec.get("shard", 0) % spec["sweep_of"], spec["sweep_of"]):
            res["counters"]["param_sweep_cases"] += 1
            res["counters"]["recipes"] += 1
            for o in gen.recipe_ops(recipe):
                bump(res["hist"]["ops"], o)
            for cfg in (CONFIGS[0], CONFIGS[1]):
                wd = os.path.join(workdir, "sweep")
                kw = dict(run_kw or {})
                if per_run is not None:
                    kw.update(per_run(recipe, cfg))
                rec = runner.run_recipe(recipe, cfg, wd, monitors=monitors, **kw)
                res["counters"]["runs"] += 1
                res["evaluations"] += 1
                bump(res["hist"]["config"], "sweep:" + cfg_name(cfg))
                if rec["phase"] == "skipped":
                    shutil.rmtree(wd, ignore_errors=True)
                    continue
                if rec["exc"] is not None:
                    res["counters"]["raised"] += 1
                    bump(res["hist"]["exceptions"], f"{rec['phase']}:{rec['exc']['type']}")
                else:
                    res["counters"]["completed"] += 1
                viols = judge(recipe, np_vals, cfg, rec, res, wd) or []
                for v in viols:
                    v.setdefault("property", prop)
                    v.setdefault("case", {"recipe": recipe, "cfg": cfg})
                res["violations"].extend(viols)
                if rec["exc"] is None:
                    res["nontrivial"].append(gen.rhash([recipe, cfg]))
                for k_ in ("_vals", "_outs", "_plan"):
                    rec.pop(k_, None)
                shutil.rmtree(wd, ignore_errors=True)
    return res


def replay_case(rep, workdir, *, prop, judge, monitors=(), extra_counters=(), run_kw=None, per_run=None):
    res = new_result(extra_counters)
    case = rep["case"]
    recipe, cfg = case["recipe"], case["cfg"]
    np_vals = gen.np_eval(recipe)
    wd = os.path.join(workdir, "replay")
    kw = dict(run_kw or {})
    if per_run is not None:
        kw.update(per_run(recipe, cfg))
    rec = runner.run_recipe(recipe, cfg, wd, monitors=monitors, **kw)
    res["evaluations"] = 1
    res["counters"]["runs"] = 1
    viols = judge(recipe, np_vals, cfg, rec, res, wd) or []
    for v in viols:
        v.setdefault("property", prop)
        v.setdefault("case", {"recipe": recipe, "cfg": cfg})
    res["violations"] = viols
    print("replay: phase", rec["phase"], "exc", rec["exc"], "violations", len(viols))
    return res
