"""C10 - a lazy array's value is fixed when built; inputs and earlier outputs stay intact.

Monitor: random API histories over a pool of related lazy arrays with a NumPy shadow kept
alongside: derive / compute any subset (optimised or not, resume or not, different executors) /
store or to_zarr any member, including ancestors of other members (eager or lazy, new path or
existing array) / re-compute / change the default executor. After every step a sample of the pool
is computed and compared with the shadow, and digests of the inputs (in-memory arrays, source Zarr
directories) and of every target written by an earlier store call are compared with what they were.
"""
from __future__ import annotations

import hashlib
import os
import random
import shutil
import warnings

import numpy as np

from checks import _rc
from vlib import gen, oracle, runner, storetrace

PROPERTY = "C10"
LEVEL = "exploration"
TIMEOUT = {"quick": 1500, "thorough": 7200}
RULE = (
    "histories of 5-12 (quick) / up to 30 (thorough) steps drawn from {derive, compute subset, store/to_zarr (eager|lazy, "
    "path|existing array) of any pool member, re-compute, change default executor, (6%) the motif compute m / compute m with resume / save m to a new path / compute a dependent with resume, and (6%) the motif: derive a never-computed shared ancestor, compute its first reader optimised (ancestor fused away), compute both readers with resume, compute their sum unoptimised with resume}; 30% of computes and 12% of stores pass resume=True; pool built by vlib.gen.Gen; half of "
    "the histories use the global default configuration (spec=None). An evaluation = one history step followed by its "
    "checks; non-trivial = the step came after at least one store/to_zarr or compute of a related array; distinct by hash "
    "of (history prefix)"
)
ASSUMPTIONS = [
    "NumPy shadow as value oracle; directory digests (blake2 of every file) as the 'unchanged' oracle for inputs and earlier targets",
    "an explicit ValueError/TypeError/NotImplementedError when deriving or storing is a refusal, not a violation of C10",
]
NSHARDS = {"quick": 16, "thorough": 16}
PER_SHARD = {"quick": 28, "thorough": 120}


def shards(tier, seed):
    return [{"n": PER_SHARD[tier], "maxdim": 7, "steps": (5, 12) if tier == "quick" else (10, 30), "watchdog_s": TIMEOUT[tier] - 30}
            for _ in range(NSHARDS[tier])]


def dir_digest(path):
    h = hashlib.blake2b(digest_size=8)
    for rel, (n, d) in sorted(storetrace.dir_snapshot(path).items()):
        h.update(rel.encode())
        h.update(d.encode())
    return h.hexdigest()


class History:
    def __init__(self, seed, workdir, maxdim, use_global_config):
        import cubed

        self.rng = random.Random(seed)
        self.wd = workdir
        os.makedirs(workdir, exist_ok=True)
        self.use_global = use_global_config
        self.ctx = None
        if use_global_config:
            cubed.config.set({"spec.work_dir": os.path.join(workdir, "w")})
            self.spec = None
        else:
            self.spec = runner.make_spec(os.path.join(workdir, "w"))
        self.env = gen.BuildEnv(self.spec, workdir)
        self.g = gen.Gen(self.rng.getrandbits(48), maxdim=maxdim, depth=3, allow_zero=False,
                         weights={"linalg": 2, "multi": 2, "binary": 14, "unary": 8, "reduce": 10, "rechunk": 5, "combo": 5, "random": 0})
        self.g.maxblocks = 12
        recipe, vals = self.g.generate(nops=self.rng.randint(1, 3))
        self.cu = {}
        self.steps = []
        self.targets = []  # (path, digest, expected array)
        self.input_digests = {}
        self.leaf_copies = {}
        self.stored_or_computed = False
        self._build_new()
        self._snapshot_inputs()

    # ---- pool maintenance
    def _build_new(self):
        nodes = self.g._nodes
        i = len(self.cu)
        while i < len(nodes):
            try:
                with warnings.catch_warnings():
                    warnings.simplefilter("ignore")
                    self.cu[i] = gen.cu_eval_node(nodes[i], self.cu, self.env, i)
            except Exception as e:
                if type(e).__name__ not in ("ValueError", "TypeError", "NotImplementedError", "IndexError", "AxisError"):
                    raise
                # refused: roll the generator back to before this node
                del nodes[i:]
                for k in list(self.g._vals):
                    if k >= i:
                        del self.g._vals[k]
                for k in list(self.cu):
                    if k >= i:
                        del self.cu[k]
                return False
            i += 1
        return True

    def _snapshot_inputs(self):
        inp = os.path.join(self.wd, "inputs")
        if os.path.isdir(inp):
            for d in os.listdir(inp):
                p = os.path.join(inp, d)
                if p not in self.input_digests:
                    self.input_digests[p] = dir_digest(p)

    def members(self):
        return [i for i, v in self.cu.items() if not isinstance(v, tuple) and isinstance(self.g._vals.get(i), np.ndarray)
                and self.g._nodes[i]["op"] != "pick"]

    # ---- steps
    def step_derive(self):
        before = len(self.g._nodes)
        try:
            ok = self.g.add_random_op()
        except (gen.NumpyReject, KeyError, TypeError, IndexError, ValueError, AttributeError):
            ok = False
        if not ok:
            del self.g._nodes[before:]
            for k in list(self.g._vals):
                if k >= before:
                    del self.g._vals[k]
            return {"step": "derive", "ok": False}
        built = self._build_new()
        self._snapshot_inputs()
        return {"step": "derive", "ok": built, "ops": [n["op"] for n in self.g._nodes[before:]]}

    def compute_kw(self):
        rng = self.rng
        kw = {"optimize_graph": rng.random() < 0.6}
        if rng.random() < 0.3:
            kw["resume"] = True
        kw["executor"] = runner.make_executor(rng.choice(["single-threaded", "single-threaded", "threads"]))
        return kw

    def step_compute(self, viols, label="compute", pick=None, force=None):
        import cubed

        ms = self.members()
        if pick is None:
            pick = self.rng.sample(ms, min(len(ms), self.rng.randint(1, 3)))
        kw = self.compute_kw()
        kw.update(force or {})
        if kw.get("resume") is False:
            kw.pop("resume")
        desc = {"step": label, "members": pick, "optimize": kw["optimize_graph"], "resume": kw.get("resume", False), "executor": kw["executor"].name}
        try:
            with warnings.catch_warnings():
                warnings.simplefilter("ignore")
                res = cubed.compute(*[self.cu[i] for i in pick], **kw)
        except ValueError as e:
            if "same spec" in str(e):
                desc["refused"] = "arrays built under different default configurations"
                return desc
            viols.append(("compute-fails", f"{desc}: {type(e).__name__}: {str(e)[:200]}", {"exc": type(e).__name__}))
            return desc
        except NotImplementedError as e:
            if kw.get("resume"):
                desc["refused"] = "resume not supported"
                return desc
            viols.append(("compute-fails", f"{desc}: {type(e).__name__}: {str(e)[:200]}", {"exc": type(e).__name__}))
            return desc
        except Exception as e:
            viols.append(("compute-fails", f"{desc}: {type(e).__name__}: {str(e)[:200]}", {"exc": type(e).__name__}))
            return desc
        self.stored_or_computed = True
        for i, r in zip(pick, res):
            d = oracle.compare(self.g._vals[i], np.asarray(r))
            if d:
                viols.append(("value-changed", f"member {i} ({self.g._nodes[i]['op']}) computed after history {self.describe()}: {d}", {"member_op": self.g._nodes[i]["op"]}))
        return desc

    def storable(self):
        return [i for i in self.members() if self.g._vals[i].ndim >= 1 and self.g._vals[i].size > 0 and self.g._vals[i].dtype.kind in "biuf"]

    def step_store(self, viols, member=None, new_path=False):
        import zarr

        import cubed

        rng = self.rng
        ms = self.storable()
        if not ms:
            return {"step": "store", "ok": False}
        i = rng.choice(ms) if member is None else member
        want = np.asarray(self.g._vals[i])
        # every attempt gets its own path: a store call that was refused may already have re-pointed the
        # member's lazy array at its path, and a later compute of that member then (legitimately) writes there
        self.nstore_attempts = getattr(self, "nstore_attempts", 0) + 1
        k = self.nstore_attempts
        path = os.path.join(self.wd, f"target{k}.zarr")
        api = rng.choice(["store", "to_zarr"])
        lazy = rng.random() < 0.35
        existing = rng.random() < 0.3 and not new_path
        desc = {"step": "store", "member": i, "api": api, "lazy": lazy, "existing": existing, "has_dependents": any(i in n.get("in", []) for n in self.g._nodes)}
        tgt = path
        if existing:
            with storetrace.paused():
                z = zarr.create_array(store=path, shape=want.shape, dtype=want.dtype, chunks=tuple(max(1, s // 2) for s in want.shape), overwrite=True)
            tgt = zarr.open_array(path, mode="r+")
        kw = self.compute_kw()
        if rng.random() < 0.6:
            kw.pop("resume", None)
        desc["resume"] = kw.get("resume", False)
        try:
            with warnings.catch_warnings():
                warnings.simplefilter("ignore")
                if api == "to_zarr":
                    if lazy:
                        out = cubed.to_zarr(self.cu[i], tgt, compute=False)
                        out.compute(_return_in_memory_array=False, **kw)
                    else:
                        cubed.to_zarr(self.cu[i], tgt, **kw)
                else:
                    if lazy:
                        outs = cubed.store([self.cu[i]], [tgt], compute=False)
                        cubed.compute(*outs, _return_in_memory_array=False, **kw)
                    else:
                        cubed.store([self.cu[i]], [tgt], **kw)
        except (ValueError, TypeError, NotImplementedError) as e:
            desc["refused"] = type(e).__name__
            shutil.rmtree(path, ignore_errors=True)
            return desc
        except Exception as e:
            viols.append(("store-fails", f"{desc}: {type(e).__name__}: {str(e)[:200]}", {"exc": type(e).__name__}))
            return desc
        self.stored_or_computed = True
        try:
            got = np.asarray(zarr.open_array(path, mode="r")[...])
            d = oracle.compare(want, got)
        except Exception as e:
            d = f"target unreadable: {type(e).__name__}: {e}"
        if d:
            viols.append(("stored-target-wrong", f"{desc}: {d}", {"member_op": self.g._nodes[i]["op"]}))
        else:
            self.targets.append((path, dir_digest(path), i))
        return desc

    def step_motif(self, viols):
        """compute m; compute m again with resume (its operation is seen complete); save m to a new path; compute m's
        dependents (or m) with resume: the value of everything built before must not depend on that history."""
        ms = self.storable()
        if not ms:
            return {"step": "motif", "ok": False}
        withdeps = [i for i in ms if any(i in n.get("in", []) for n in self.g._nodes)]
        m = self.rng.choice(withdeps or ms)
        deps = [k for k in self.members() if m in self.g._nodes[k].get("in", [])]
        sub = [self.step_compute(viols, label="motif-compute", pick=[m], force={"resume": False})]
        if not viols:
            sub.append(self.step_compute(viols, label="motif-resume", pick=[m], force={"resume": True, "optimize_graph": self.rng.random() < 0.5}))
        if not viols:
            sub.append(self.step_store(viols, member=m, new_path=True))
        if not viols:
            pick = ([self.rng.choice(deps)] if deps and self.rng.random() < 0.7 else [m])
            sub.append(self.step_compute(viols, label="motif-after", pick=pick, force={"resume": True}))
        return {"step": "motif", "member": m, "sub": sub}

    def step_motif_shared(self, viols):
        """x' = x + 1 (never computed); y = -x'; compute y optimised (x' is fused away, never written); z = x' * 2;
        compute (y, z) with resume; w = y + z computed unoptimised with resume. A resume that trusts or skips the
        shared, unmaterialised ancestor x' shows as wrong values of z or w."""
        cands = [i for i in self.members() if self.g._vals[i].dtype.kind in "if" and self.g._vals[i].size > 0]
        if not cands:
            return {"step": "motif-shared", "ok": False}
        x = self.rng.choice(cands)
        before = len(self.g._nodes)
        try:
            x1 = self.g._add({"op": "add", "in": [x], "p": {"scalar": 1}})
            y = self.g._add({"op": "negative", "in": [x1], "p": {}}) if x1 is not None else None
        except Exception:
            x1 = y = None
        if x1 is None or y is None or not self._build_new():
            del self.g._nodes[before:]
            for k in list(self.g._vals):
                if k >= before:
                    del self.g._vals[k]
            return {"step": "motif-shared", "ok": False}
        sub = [self.step_compute(viols, label="shared-first-reader", pick=[y], force={"resume": False, "optimize_graph": True})]
        z = self.g._add({"op": "multiply", "in": [x1], "p": {"scalar": 2}})
        if z is None or not self._build_new():
            return {"step": "motif-shared", "ok": False, "sub": sub}
        if not viols:
            sub.append(self.step_compute(viols, label="shared-both-readers-resume", pick=[y, z], force={"resume": True, "optimize_graph": self.rng.random() < 0.5}))
        w = self.g._add({"op": "add", "in": [y, z], "p": {}})
        if w is not None and self._build_new() and not viols:
            sub.append(self.step_compute(viols, label="shared-diamond-resume", pick=[w], force={"resume": True, "optimize_graph": False}))
        return {"step": "motif-shared", "member": x, "sub": sub}

    def step_config(self):
        import cubed

        name = self.rng.choice(["single-threaded", "threads"])
        cubed.config.set({"spec.executor_name": name})
        return {"step": "config", "executor_name": name}

    def check_invariants(self, viols):
        for p, d in self.input_digests.items():
            if dir_digest(p) != d:
                viols.append(("input-modified", f"source Zarr directory {os.path.basename(p)} changed after history {self.describe()}", {}))
        for i, node in enumerate(self.g._nodes):
            pass
        seen_paths = {}
        for path, d, member in self.targets:
            seen_paths[path] = (d, member)
        for path, (d, member) in seen_paths.items():
            if dir_digest(path) != d:
                # the same member may legitimately be written again to its own target by a later compute
                # (re-targeted lazy array): content must still be identical
                import zarr

                try:
                    got = np.asarray(zarr.open_array(path, mode="r")[...])
                    dd = oracle.compare(self.g._vals[member], got)
                except Exception as e:
                    dd = f"unreadable: {e}"
                if dd:
                    viols.append(("earlier-target-modified", f"target {os.path.basename(path)} written by an earlier store call changed: {dd}; history {self.describe()}", {}))

    def describe(self):
        return [{k: v for k, v in s.items() if k in ("step", "member", "members", "api", "lazy", "existing", "resume", "optimize", "ops", "has_dependents", "sub")} for s in self.steps]


def run_history(seed, workdir, maxdim, nsteps, res, use_global):
    import cubed

    storetrace.install()
    saved = cubed.config.get("spec", None)
    h = History(seed, workdir, maxdim, use_global)
    all_viols = []
    try:
        for t in range(nsteps):
            viols = []
            r = h.rng.random()
            if r < 0.06 and t >= 2:
                s = h.step_motif(viols)
                res["counters"]["compute_resume_store_resume_motifs"] += 1 if s.get("sub") and len(s["sub"]) == 4 else 0
            elif r < 0.12 and t >= 1:
                s = h.step_motif_shared(viols)
                res["counters"]["shared_ancestor_resume_motifs"] += 1 if s.get("sub") and len(s["sub"]) == 3 else 0
            elif r < 0.35:
                s = h.step_derive()
            elif r < 0.6:
                s = h.step_compute(viols)
            elif r < 0.85:
                s = h.step_store(viols)
            elif r < 0.93 and use_global:
                s = h.step_config()
            else:
                s = h.step_compute(viols, label="recompute")
            h.steps.append(s)
            _rc.bump(res["hist"]["config"], s["step"])
            # after every step: sample of the pool equals its shadow; inputs and earlier targets intact
            if h.members():
                h.step_compute(viols, label="probe")
            h.check_invariants(viols)
            res["evaluations"] += 1
            res["counters"]["steps"] += 1
            if h.stored_or_computed:
                res["nontrivial"].append(gen.rhash([seed, t]))
            for kind, msg, facts in viols:
                facts = dict(facts, history=h.describe(), global_config=use_global)
                all_viols.append({"property": PROPERTY, "kind": kind, "msg": msg, "facts": facts,
                                  "case": {"seed": seed, "maxdim": maxdim, "nsteps": nsteps, "use_global": use_global}})
            if viols:
                break
    finally:
        if use_global:
            cubed.config.set({"spec": {"allowed_mem": "2GB", "reserved_mem": "100MB"}})
    res["counters"]["histories"] += 1
    res["counters"]["store_calls"] += sum(1 for s in h.steps if s["step"] == "store" and "refused" not in s and s.get("ok", True))
    res["counters"]["stores_of_arrays_with_dependents"] += sum(1 for s in h.steps if s["step"] == "store" and s.get("has_dependents") and "refused" not in s)
    return all_viols, h


EXTRA = ("shared_ancestor_resume_motifs", "compute_resume_store_resume_motifs", "histories", "steps", "store_calls", "stores_of_arrays_with_dependents")


def run_shard(spec, workdir):
    rng = random.Random(spec["seed"])
    res = _rc.new_result(EXTRA)
    for k in range(spec["n"]):
        seed = rng.getrandbits(40)
        wd = os.path.join(workdir, f"h{k}")
        n = rng.randint(*spec["steps"])
        try:
            viols, h = run_history(seed, wd, spec["maxdim"], n, res, use_global=(k % 2 == 1))
        except Exception as e:
            res["inconclusive"].append(f"history {seed} crashed in the harness: {type(e).__name__}: {str(e)[:200]}")
            shutil.rmtree(wd, ignore_errors=True)
            continue
        res["violations"].extend(viols)
        if not res["samples"] and spec.get("shard", 0) == 0:
            res["samples"].append({"seed": seed, "history": h.describe()})
        shutil.rmtree(wd, ignore_errors=True)
    return res


def replay(rep, workdir):
    res = _rc.new_result(EXTRA)
    c = rep["case"]
    viols, h = run_history(c["seed"], os.path.join(workdir, "replay"), c["maxdim"], c["nsteps"], res, c["use_global"])
    print("replay history:", h.describe())
    res["violations"] = viols
    return res


def finalize(tier, merged):
    c = merged["counters"]
    return {
        "rule": RULE,
        "floors": [
            ("history steps executed and checked", c.get("steps", 0), 2500 if tier == "quick" else 20000),
            ("store/to_zarr calls inside histories", c.get("store_calls", 0), 400 if tier == "quick" else 3000),
            ("compute / compute(resume) / store / compute(resume) motifs completed", c.get("compute_resume_store_resume_motifs", 0), 60 if tier == "quick" else 450),
            ("fused-away shared ancestor / second reader / resume motifs completed", c.get("shared_ancestor_resume_motifs", 0), 40 if tier == "quick" else 300),
            ("stores of arrays that other pool members depend on", c.get("stores_of_arrays_with_dependents", 0), 100 if tier == "quick" else 750),
        ],
        "assumptions": ASSUMPTIONS,
    }
