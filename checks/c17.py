"""C17 - unsupported requests are refused up front with an explicit error type; accepted plans do
not fail mid-run.

Deciding monitor: exception type + phase. Phase is where the exception surfaced: recipe
construction ('build'), cubed.plan ('plan'), or after the wrapped executor was entered ('execute',
decided by the Wrap entry counter). NumPy evaluates every recipe (the generator discards candidates
NumPy rejects), so any cubed exception is a refusal and must be ValueError / TypeError /
NotImplementedError / IndexError (or a subclass) raised before execution starts.
"""
from __future__ import annotations

from checks import _rc
from vlib import gen, runner

PROPERTY = "C17"
LEVEL = "exploration"
TIMEOUT = {"quick": 1500, "thorough": 7200}
RULE = (
    "recipes from vlib.gen.Gen with hostile=1 (extra weight on layouts cubed may not support: ragged qr/svd "
    "blocks, multi-chunk core dims for apply_gufunc, mismatched chunking in stack/concat, reshape, many-chunk "
    "cumulative_*); a case (recipe, configuration) is non-trivial when cubed raised (its type and phase are "
    "judged) or ran to completion on a multi-block input (no mid-run failure); distinct by hash"
    " Plus a bounded-exhaustive parameter sweep: single-operation recipes enumerating the discrete parameters of the public functions for 1-3 dimensions (every ordered choice of tensordot contraction axes; per-dimension {all, reversed, strided, reversed+strided, integer} indexing with a new axis at every position; all axis permutations, moveaxis pairs, flip/reduction axis subsets x keepdims, roll, arg-reductions, scans, diff, repeat, take, unstack, concat/stack/expand_dims positions, pad widths, tril/triu offsets, vecdot axes, ordered block selections through Array.blocks: 1032 cases; reshape splitting or merging dimensions of sizes 6-12 for every chunking), geometry drawn at random, each run optimised and unoptimised."
)
ASSUMPTIONS = [
    "runs are fault free (no injection), so any exception after executor entry is cubed's own",
    "an exception whose traceback has no cubed frame while building the recipe is a harness error (inconclusive), not judged",
]
NSHARDS = {"quick": 16, "thorough": 16}
PER_SHARD = {"quick": 110, "thorough": 700}
ALLOWED = {"ValueError", "TypeError", "NotImplementedError", "IndexError"}


def shards(tier, seed):
    return [
        {"n": PER_SHARD[tier], "maxdim": 9 if tier == "quick" else 13, "depth": 4 if tier == "quick" else 6,
         "watchdog_s": TIMEOUT[tier] - 30, "sweep_of": 16 if tier == "quick" else 4}
        for _ in range(NSHARDS[tier])
    ]


def failing_op(recipe, rec):
    n = rec["exc"].get("node")
    if n is None:
        return None
    node = recipe["nodes"][n]
    return node["op"] if node["op"] != "create" else "create:" + node["p"]["fn"]


def judge(recipe, np_vals, cfg, rec, res, wd):
    e = rec["exc"]
    if e is None:
        return []
    if _rc.is_harness_error(rec):
        return []
    res["counters"]["exceptions_judged"] += 1
    op = failing_op(recipe, rec)
    facts = {
        "phase": rec["phase"], "type": e["type"], "where": e["where"], "op": op, "msg": e["msg"],
        "cubed_funcs": e["cubed_funcs"], "entries": rec["entries"], "ops": gen.recipe_ops(recipe),
        "node": recipe["nodes"][e["node"]] if e.get("node") is not None else None,
        "in_leaves": [recipe["nodes"][j]["p"] for j in (recipe["nodes"][e["node"]]["in"] if e.get("node") is not None else [])
                      if recipe["nodes"][j]["op"] == "leaf"],
        "has_zero_size": gen.has_zero_size(np_vals),
    }
    out = []
    if not (set(e["mro"]) & ALLOWED):
        out.append({"kind": "bad-exception-type", "facts": facts,
                    "msg": f"{rec['phase']} phase raised {e['type']} ({e['msg'][:120]}) at {e['where']} for op {op}"})
    if rec["entries"] > 0:
        res["counters"]["failed_after_entry"] += 1
        out.append({"kind": "failed-mid-run", "facts": facts,
                    "msg": f"{_rc.cfg_name(cfg)}: {e['type']} ({e['msg'][:160]}) after execution started, at {e['where']}"})
    return out


def nontrivial(recipe, np_vals, cfg, rec):
    return rec["exc"] is not None or gen.is_nontrivial(recipe, np_vals)


EXTRA = ("exceptions_judged", "failed_after_entry")


def run_shard(spec, workdir):
    # budget split (DESIGN.md section 5): odd shards never generate zero-length dimensions, so the open
    # finding KF-zero-size-chunk-arith cannot be reached there and any violation is new
    allow_zero = spec.get("shard", 0) % 2 == 0
    res = _rc.run_cases(spec, workdir, prop=PROPERTY, judge=judge, extra_counters=EXTRA, nontrivial=nontrivial,
                        gen_kw={"hostile": 1.0, "allow_zero": allow_zero,
                                "weights": {"linalg": 9, "concat": 9, "cum": 8, "misc": 9, "manip": 14, "index": 10}})
    res["counters"]["runs_avoiding_open_findings" if not allow_zero else "runs_free_to_hit_open_findings"] = res["counters"]["runs"]
    return res


def replay(rep, workdir):
    return _rc.replay_case(rep, workdir, prop=PROPERTY, judge=judge, extra_counters=EXTRA)


def finalize(tier, merged):
    c = merged["counters"]
    return {
        "rule": RULE,
        "floors": [
            ("parameter-sweep cases run (of 1032 enumerated)", c.get("param_sweep_cases", 0), 850),
            ("exceptions judged (type+phase)", c.get("exceptions_judged", 0), 150 if tier == "quick" else 1000),
            ("runs completed without mid-run failure", c.get("completed", 0), 1500 if tier == "quick" else 10000),
        ],
        "assumptions": ASSUMPTIONS,
    }
