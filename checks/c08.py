"""C08 - task failures are retried and surfaced, never dropped; one result per task.

(A) The real cubed.runtime.asyncio.async_map_unordered is driven by scripted futures on a
    virtual-time event loop (vlib.vtime): a script assigns every (input, submission#) a completion
    time and an outcome; simultaneous completions and the order in which they are handled are
    scripted too. Invariants judged on what the scheduler did (independent of its launch policy):
      I1 normal finish => every input delivered exactly once, each with a successful submission;
      I2 a raise must be the scripted error of an input none of whose submissions has succeeded or
         is still pending (a twin that may still succeed suppresses the error);
      I3 any other exception type (KeyError, ...) is a crash;  I4 <= 2 submissions per input;
      I5 no hang: the loop never idles with work outstanding, bounded virtual time;
      I6 an input is never delivered twice.
(B) The retry wrapper (threads_create_futures_func) with a function failing its first k calls, and
    end to end: the store tracer fails the first k accesses of one chunk key with OSError under the
    real ThreadsExecutor; compute succeeds iff k <= retries, else raises that OSError.
"""
from __future__ import annotations

import asyncio
import itertools
import os
import random
import shutil

from checks import _rc
from vlib import storetrace, vtime

PROPERTY = "C08"
LEVEL = "fault_enumeration"
TIMEOUT = {"quick": 1500, "thorough": 7200}
RULE = (
    "scenario = (n inputs, use_backups, batch_size, up to 3 special inputs each with an original outcome from {fast ok, "
    "fast error, early-straggle error, straggle ok, straggle error} and a backup outcome from {ok/error} x {soon, late, "
    "simultaneous with the original} x {handled before/after the original}); n in {0,1,2,3,10,11,12,13,25} and, in 2% of the sampled scenarios, {1001,1100,1700,2600}; batch_size in "
    "{None,1,4,n-1,n,n+3}. Quick enumerates all single-special scenarios and samples the rest; thorough enumerates all "
    "pairs. Non-trivial = at least one failure or straggler in the script; distinct by hash of the scenario. Part (B): "
    "retries in {0,1,2} x k failures in {0..3}"
)
ASSUMPTIONS = [
    "time.monotonic is virtual inside the shard process; asyncio.wait's 2 s timeout and backup launch decisions run on virtual time",
    "the retry budget is the executor's retries option (default 2, i.e. three attempts as documented) on both ThreadsExecutor and ProcessesExecutor",
]
NSHARDS = {"quick": 16, "thorough": 16}


class ScriptedError(Exception):
    def __init__(self, i, k):
        super().__init__(f"scripted failure of input {i} submission {k}")
        self.i = i
        self.k = k


ORIG = {
    "fast_ok": (1.0, True), "fast_err": (0.5, False), "early_straggle_err": (3.5, False),
    "straggle_ok": (20.0, True), "straggle_err": (20.0, False), "slow_err": (9.0, False),
}
BACKUP = {
    "ok_soon": ("rel", 1.0, True), "err_soon": ("rel", 1.0, False), "ok_late": ("rel", 40.0, True),
    "err_late": ("rel", 40.0, False), "ok_sim": ("abs", 20.0, True), "err_sim": ("abs", 20.0, False),
}
CLOCK = vtime.VClock()


def run_scenario(sc):
    """-> (outcome dict) ; runs the real scheduler under the script."""
    from cubed.runtime.asyncio import async_map_unordered

    CLOCK.install()
    CLOCK.now = 1000.0
    loop = vtime.new_loop(CLOCK, bound_s=2000.0 + 45.0 * sc["n"])
    asyncio.set_event_loop(loop)
    n = sc["n"]
    subs = {i: [] for i in range(n)}
    delivered = []
    futs = []

    def complete(fut, rec, ok, i, k):
        if fut.done():
            return
        rec["completed_at"] = CLOCK.now
        if ok:
            fut.set_result((i, k))
        else:
            fut.set_exception(ScriptedError(i, k))

    def create_futures(inputs, **kw):
        out = []
        for i in inputs:
            k = len(subs[i])
            sp = sc["special"].get(str(i), {})
            rank = 4 * i + 1
            if k == 0:
                delay, ok = ORIG[sp.get("orig", "fast_ok")]
                tc = CLOCK.now + delay
                if sp.get("first") == "backup":
                    rank = 4 * i + 2
            elif k == 1:
                mode, val, ok = BACKUP[sp.get("backup", "ok_soon")]
                tc = CLOCK.now + val if mode == "rel" else max(CLOCK.now + 0.001, 1000.0 + val)
                rank = 4 * i + (1 if sp.get("first") == "backup" else 2)
            else:
                tc, ok = CLOCK.now + 1.0, True
                rank = 4 * i + 3
            fut = vtime.RankedFuture(loop=loop)
            fut._rank = rank
            rec = {"k": k, "submitted_at": CLOCK.now, "due": tc, "ok": ok, "completed_at": None, "fut": fut}
            subs[i].append(rec)
            loop.call_at(tc, complete, fut, rec, ok, i, k)
            futs.append(fut)
            out.append((i, fut))
        return out

    async def main():
        async for r in async_map_unordered(create_futures, list(range(n)), use_backups=sc["use_backups"],
                                           batch_size=sc["batch_size"], name="op"):
            delivered.append((r, CLOCK.now))

    out = {"exc": None, "hang": None}
    try:
        loop.run_until_complete(main())
    except ScriptedError as e:
        out["exc"] = e
    except vtime.Hang as e:
        out["hang"] = str(e)
    except BaseException as e:  # noqa
        out["exc"] = e
    out["t_end"] = CLOCK.now
    out["subs"] = subs
    out["delivered"] = delivered
    for f in futs:
        if not f.done():
            f.cancel()
    try:
        loop.close()
    except Exception:
        pass
    asyncio.set_event_loop(None)
    return out


def judge(sc, o):
    viols = []
    subs, delivered, t_end = o["subs"], o["delivered"], o["t_end"]

    def V(kind, msg):
        viols.append({"kind": kind, "msg": f"{msg} | scenario {sc}", "facts": {"scenario": sc, "kind": kind}})

    count = {}
    for (i, k), t in delivered:
        count[i] = count.get(i, 0) + 1
    for i, c in count.items():
        if c > 1:
            V("delivered-twice", f"input {i} was delivered {c} times")
    for i, ss in subs.items():
        if len(ss) > 2:
            V("submitted-more-than-twice", f"input {i} was submitted {len(ss)} times")
    if o["hang"]:
        V("hang", o["hang"])
        return viols
    e = o["exc"]
    if e is None:
        for i in range(sc["n"]):
            if count.get(i, 0) == 0:
                V("input-dropped", f"map finished normally but input {i} was never delivered")
            elif not any(s["ok"] and s["completed_at"] is not None for s in subs[i]):
                V("failed-input-treated-as-done", f"input {i} was delivered although none of its submissions succeeded")
    elif isinstance(e, ScriptedError):
        twins = subs[e.i]
        if any(s["ok"] and s["completed_at"] is not None and s["completed_at"] <= t_end for s in twins):
            V("raised-although-twin-succeeded", f"raised the error of input {e.i} submission {e.k} although another submission of that input had already succeeded")
        elif any(s["completed_at"] is None and not s["fut"].cancelled() and s["due"] > t_end for s in twins):
            V("raised-while-twin-pending", f"raised the error of input {e.i} submission {e.k} while another submission of that input was still running")
    else:
        V("crashed-for-another-reason", f"map raised {type(e).__name__}: {str(e)[:120]}")
    return viols


def batch_sizes(n):
    return sorted({b for b in (1, 4, n - 1, n, n + 3) if b >= 1}) + [None]


def single_special_scenarios():
    # nothing to map over: the map has to finish at once, with or without batching
    for ub in (False, True):
        for bs in (1, 4, None):
            yield {"n": 0, "use_backups": ub, "batch_size": bs, "special": {}}
    for n in (1, 2, 3, 10, 11, 12, 13, 25):
        for ub in (False, True):
            for bs in batch_sizes(n):
                yield {"n": n, "use_backups": ub, "batch_size": bs, "special": {}}
                for pos in sorted({0, n // 2, n - 1}):
                    for orig in ORIG:
                        if orig == "fast_ok":
                            continue
                        backs = list(BACKUP) if (ub and n >= 10) else ["ok_soon"]
                        for b in backs:
                            for first in (("orig", "backup") if b.endswith("_sim") else ("orig",)):
                                yield {"n": n, "use_backups": ub, "batch_size": bs,
                                       "special": {str(pos): {"orig": orig, "backup": b, "first": first}}}


def random_scenario(rng, k=None):
    n = rng.choice([10, 11, 12, 13, 25, 3])
    if rng.random() < 0.02:
        n = rng.choice([1001, 1100, 1700, 2600])  # more inputs in flight than any bound on the futures waited on
    ub = rng.random() < 0.8
    bs = rng.choice(batch_sizes(n))
    k = k if k is not None else rng.choice([2, 2, 3])
    sp = {}
    for pos in rng.sample(range(n), min(k, n)):
        sp[str(pos)] = {"orig": rng.choice(list(ORIG)), "backup": rng.choice(list(BACKUP)), "first": rng.choice(["orig", "backup"])}
    return {"n": n, "use_backups": ub, "batch_size": bs, "special": sp}


def shards(tier, seed):
    out = []
    ns = NSHARDS[tier]
    for i in range(ns):
        out.append({"part": "A", "index": i, "of": ns, "random": 700 if tier == "quick" else 12000,
                    "pairs": tier == "thorough", "watchdog_s": TIMEOUT[tier] - 30})
    out[0]["part"] = "AB"
    return out


def pair_scenarios():
    for n in (10, 12):
        for bs in (None, 4, n):
            origs = [o for o in ORIG if o != "fast_ok"]
            for (o1, o2) in itertools.product(origs, origs):
                for (b1, b2) in itertools.product(BACKUP, BACKUP):
                    yield {"n": n, "use_backups": True, "batch_size": bs,
                           "special": {"2": {"orig": o1, "backup": b1, "first": "orig"}, str(n - 1): {"orig": o2, "backup": b2, "first": "backup"}}}


def part_b(res, workdir):
    """Retry wrapper and end-to-end retry budget."""
    import threading
    from concurrent.futures import ThreadPoolExecutor

    import numpy as np

    import cubed
    import cubed.array_api as xp
    from cubed.runtime.executors.local import ThreadsExecutor, threads_create_futures_func

    CLOCK.uninstall()
    # (B1) attempts per submission = min(k, retries) + 1
    for retries in (0, 1, 2):
        for k in (0, 1, 2, 3):
            calls = []
            lock = threading.Lock()

            def fn(i, **kw):
                with lock:
                    calls.append(i)
                    c = len(calls)
                if c <= k:
                    raise OSError(f"injected failure {c}")
                return i

            async def go():
                pool = ThreadPoolExecutor(2)
                try:
                    cf = threads_create_futures_func(pool, fn, retries)
                    (i, fut), = cf([7])
                    try:
                        return ("ok", await fut)
                    except OSError as e:
                        return ("err", str(e))
                finally:
                    pool.shutdown(wait=True)

            r = asyncio.run(go())
            res["evaluations"] += 1
            res["counters"]["retry_wrapper_cases"] += 1
            want_attempts = min(k, retries) + 1
            ok_expected = k <= retries
            if len(calls) != want_attempts or (r[0] == "ok") != ok_expected:
                res["violations"].append({"property": PROPERTY, "kind": "retry-wrapper", "case": {"retries": retries, "k": k},
                                          "msg": f"retries={retries}, function fails first {k} calls: {len(calls)} attempts (expected {want_attempts}), outcome {r}",
                                          "facts": {"retries": retries, "k": k}})
    # (B2) end to end: fail the first k reads of one input chunk with OSError
    storetrace.install()
    import zarr

    for retries in (0, 1, 2):
        for k in (0, 1, 2, 3):
            wd = os.path.join(workdir, f"b2_{retries}_{k}")
            os.makedirs(wd, exist_ok=True)
            data = np.arange(36.0).reshape(6, 6)
            zp = os.path.join(wd, "in.zarr")
            z = zarr.create_array(store=zp, shape=data.shape, dtype=data.dtype, chunks=(3, 3), overwrite=True)
            z[...] = data
            spec = cubed.Spec(work_dir=wd, allowed_mem="500MB")
            a = cubed.from_zarr(zp, spec=spec)
            b = xp.negative(a) + 1
            state = {"n": 0}

            def inj(phase, ev, _k=k, _st=state):
                if ev["op"] == "get" and ev["key"] == "c/1/0" and ev["root"].endswith("in.zarr"):
                    _st["n"] += 1
                    if _st["n"] <= _k:
                        raise OSError(f"injected storage fault {_st['n']}")
                return 0.0

            storetrace.TRACE.start(injector=inj, digest=False)
            err = None
            try:
                r = b.compute(executor=ThreadsExecutor(retries=retries, max_workers=2))
            except BaseException as e:  # noqa
                err = e
            storetrace.TRACE.stop()
            res["evaluations"] += 1
            res["counters"]["end_to_end_fault_cases"] += 1
            res["counters"]["accesses_to_faulty_key"] += state["n"]
            ok_expected = k <= retries
            good = (err is None and ok_expected and np.array_equal(r, -data + 1)) or (err is not None and not ok_expected and isinstance(err, OSError))
            if not good:
                res["violations"].append({"property": PROPERTY, "kind": "end-to-end-retry", "case": {"retries": retries, "k": k},
                                          "msg": f"ThreadsExecutor(retries={retries}), chunk read fails first {k} times: outcome {type(err).__name__ if err else 'success'} "
                                                 f"({str(err)[:100] if err else ''}), accesses={state['n']}; expected {'success' if ok_expected else 'OSError'}",
                                          "facts": {"retries": retries, "k": k}})
            if state["n"] != min(k, retries + 1) + (1 if ok_expected else 0):
                res["violations"].append({"property": PROPERTY, "kind": "attempt-count", "case": {"retries": retries, "k": k},
                                          "msg": f"retries={retries}, k={k}: faulty key accessed {state['n']} times, expected {min(k, retries + 1) + (1 if ok_expected else 0)}",
                                          "facts": {"retries": retries, "k": k}})
            shutil.rmtree(wd, ignore_errors=True)
    # (B3) the same end to end on the ProcessesExecutor: one worker process (so the fault counter is in one place),
    # injector and tracer installed in the worker through sitecustomize + environment
    from cubed.runtime.executors.local import ProcessesExecutor

    site = os.path.join(os.path.dirname(os.path.dirname(os.path.abspath(__file__))), "vlib", "site")
    for retries, k in ((2, 0), (2, 2), (2, 3), (0, 1)):
        wd = os.path.join(workdir, f"b3_{retries}_{k}")
        os.makedirs(wd, exist_ok=True)
        data = np.arange(36.0).reshape(6, 6)
        zp = os.path.join(wd, "in.zarr")
        z = zarr.create_array(store=zp, shape=data.shape, dtype=data.dtype, chunks=(3, 3), overwrite=True)
        z[...] = data
        spec = cubed.Spec(work_dir=wd, allowed_mem="500MB")
        b = xp.negative(cubed.from_zarr(zp, spec=spec)) + 1
        sink = os.path.join(wd, "worker-trace.jsonl")
        newenv = {"VERIF_TRACE_FILE": sink, "VERIF_TRACE_PARENT": str(os.getpid()), "VERIF_INJECT": f"failkey:{k}:in.zarr:c/1/0",
                  "PYTHONPATH": site + os.pathsep + os.environ.get("PYTHONPATH", "")}
        saved = {kk: os.environ.get(kk) for kk in newenv}
        os.environ.update(newenv)
        err = None
        try:
            r = b.compute(executor=ProcessesExecutor(retries=retries, max_workers=1))
        except BaseException as e:  # noqa
            err = e
        finally:
            for kk, vv in saved.items():
                if vv is None:
                    os.environ.pop(kk, None)
                else:
                    os.environ[kk] = vv
        accesses = sum(1 for e in storetrace.read_sink(sink) if e.get("op") == "get" and e.get("key") == "c/1/0" and str(e.get("root", "")).endswith("in.zarr"))
        res["evaluations"] += 1
        res["counters"]["end_to_end_fault_cases_processes"] += 1
        res["counters"]["accesses_to_faulty_key"] += accesses
        ok_expected = k <= retries
        good = (err is None and ok_expected and np.array_equal(r, -data + 1)) or (err is not None and not ok_expected and "injected storage fault" in repr(err) + str(getattr(err, "__cause__", "")))
        if not good:
            res["violations"].append({"property": PROPERTY, "kind": "end-to-end-retry-processes", "case": {"retries": retries, "k": k, "executor": "processes"},
                                      "msg": f"ProcessesExecutor(retries={retries}), chunk read fails first {k} times: outcome {type(err).__name__ if err else 'success'} "
                                             f"({str(err)[:120] if err else ''}), accesses={accesses}; expected {'success' if ok_expected else 'the injected OSError'}",
                                      "facts": {"retries": retries, "k": k}})
        shutil.rmtree(wd, ignore_errors=True)


EXTRA = ("scenarios", "with_failure_or_straggler", "finished_normally", "raised_scripted_error", "backups_launched",
         "simultaneous_completions", "retry_wrapper_cases", "end_to_end_fault_cases", "end_to_end_fault_cases_processes", "accesses_to_faulty_key")


def run_one(sc, res):
    o = run_scenario(sc)
    res["evaluations"] += 1
    res["counters"]["scenarios"] += 1
    if sc["special"]:
        res["counters"]["with_failure_or_straggler"] += 1
        res["nontrivial"].append(_h(sc))
    if o["exc"] is None and not o["hang"]:
        res["counters"]["finished_normally"] += 1
    elif isinstance(o["exc"], ScriptedError):
        res["counters"]["raised_scripted_error"] += 1
    nb = sum(1 for ss in o["subs"].values() if len(ss) >= 2)
    res["counters"]["backups_launched"] += nb
    for ss in o["subs"].values():
        if len(ss) >= 2 and ss[0]["completed_at"] is not None and ss[0]["completed_at"] == ss[1]["completed_at"]:
            res["counters"]["simultaneous_completions"] += 1
    viols = judge(sc, o)
    for v in viols:
        v["property"] = PROPERTY
        v["case"] = {"scenario": sc}
    res["violations"].extend(viols)
    return o


def _h(sc):
    from vlib.gen import rhash

    return rhash(sc)


def run_shard(spec, workdir):
    res = _rc.new_result(EXTRA)
    rng = random.Random(spec["seed"])
    idx, of = spec["index"], spec["of"]
    for j, sc in enumerate(single_special_scenarios()):
        if j % of == idx:
            run_one(sc, res)
    if spec.get("pairs"):
        for j, sc in enumerate(pair_scenarios()):
            if j % of == idx:
                run_one(sc, res)
    for _ in range(spec["random"]):
        run_one(random_scenario(rng), res)
    if idx == 0:
        res["samples"].append(random_scenario(random.Random(1)))
        res["samples"].append(next(itertools.islice(single_special_scenarios(), 500, None)))
    if "B" in spec["part"]:
        part_b(res, workdir)
    return res


def replay(rep, workdir):
    res = _rc.new_result(EXTRA)
    case = rep["case"]
    if "scenario" in case:
        o = run_one(case["scenario"], res)
        print("replay: delivered", [(r, round(t - 1000, 2)) for r, t in o["delivered"]], "exc", repr(o["exc"]), "hang", o["hang"])
        print("submissions", {i: [(s["k"], round(s["submitted_at"] - 1000, 2), s["ok"], s["completed_at"] and round(s["completed_at"] - 1000, 2)) for s in ss]
                              for i, ss in o["subs"].items() if len(ss) > 1 or str(i) in case["scenario"]["special"]})
    else:
        part_b(res, workdir)
    return res


def finalize(tier, merged):
    c = merged["counters"]
    return {
        "rule": RULE,
        "exhaustive": False,
        "floors": [
            ("scripted scenarios executed on the real scheduler", c.get("scenarios", 0), 15000 if tier == "quick" else 190000),
            ("backup tasks launched by the scheduler", c.get("backups_launched", 0), 3000 if tier == "quick" else 40000),
            ("original and backup completing at the same virtual instant", c.get("simultaneous_completions", 0), 500 if tier == "quick" else 7500),
            ("retry-wrapper and end-to-end fault cases", c.get("retry_wrapper_cases", 0) + c.get("end_to_end_fault_cases", 0) + c.get("end_to_end_fault_cases_processes", 0), 28, ),
        ],
        "assumptions": ASSUMPTIONS,
    }
