"""C06 - tasks are idempotent and independent of order, repetition and placement.

Monitor: content of every produced stored array (read back with plain zarr) and the final results
after adversarial schedules, compared with a reference schedule (in order, once, in process) of the
*same finalized plan*; the store tracer additionally checks that two writes of one chunk key within
a run carry the same bytes (compression is off, so bytes are the block's raw content).
Schedules (fault enumeration): reversed and shuffled task order; every single duplicated task at
three positions (immediately / after its operation completed / after all operations ran) for small
plans, sampled otherwise; random multisets of duplicates; every task in a fresh spawned interpreter
from its cloudpickle form.
"""
from __future__ import annotations

import os
import random
import shutil

import numpy as np

from checks import _rc
from vlib import advexec, gen, runner, storetrace

PROPERTY = "C06"
LEVEL = "fault_enumeration"
TIMEOUT = {"quick": 1500, "thorough": 7200}
RULE = (
    "for each recipe (vlib.gen.Gen incl. cubed.random arrays, multi-output ops, rechunks, reductions) one finalized plan "
    "is executed under the reference schedule and under adversarial schedules: {reversed, shuffled} x {no duplicate, "
    "each single task duplicated immediately / after its operation / after everything (all of them when the plan has "
    "<= 14 tasks, a sample otherwise), a random multiset of duplicates}, plus fresh-process execution of every task for "
    "small plans. An evaluation = one schedule; non-trivial = the schedule differs from the reference (reorders >= 2 "
    "tasks or repeats a task) and completed; distinct by hash of (recipe, schedule)"
)
ASSUMPTIONS = [
    "intermediate data is wiped between schedules so that a missing write cannot be masked by an earlier run",
    "zarr_compressor=None so that stored bytes are the block's raw content (digest comparison is exact)",
    "random arrays are compared with their own reference run (root seed is fixed at build time), plus distinctness of blocks",
]
NSHARDS = {"quick": 16, "thorough": 16}
PER_SHARD = {"quick": 14, "thorough": 80}


def shards(tier, seed):
    return [
        {"n": PER_SHARD[tier], "maxdim": 7 if tier == "quick" else 10, "depth": 4 if tier == "quick" else 6,
         "fresh": 1 if tier == "quick" else 6, "randoms": 12 if tier == "quick" else 100, "watchdog_s": TIMEOUT[tier] - 30}
        for _ in range(NSHARDS[tier])
    ]


def wipe_intermediates(workdir):
    for d in os.listdir(workdir):
        if d.startswith("cubed-"):
            shutil.rmtree(os.path.join(workdir, d), ignore_errors=True)


def stored_arrays(fp):
    """(name, LazyZarrArray) for every array of the finalized plan produced by the computation."""
    from cubed.storage.zarr import LazyZarrArray

    out = []
    for n, d in fp.dag.nodes(data=True):
        t = d.get("target")
        if d.get("type") == "array" and isinstance(t, LazyZarrArray):
            out.append((n, t))
    return out


def read_back(fp):
    import zarr

    snap = {}
    for n, t in stored_arrays(fp):
        if t.dtype.fields is not None:
            try:
                g = zarr.open_group(store=t.store, path=t.path, mode="r")
                for f in t.dtype.fields:
                    snap[f"{n}/{f}"] = np.asarray(g[f][...]) if int(np.prod(t.shape)) else np.zeros(t.shape)
            except Exception as e:
                snap[n] = f"unreadable: {type(e).__name__}"
            continue
        if int(np.prod(t.shape)) == 0:
            continue
        try:
            snap[n] = np.asarray(zarr.open_array(store=t.store, path=t.path, mode="r")[...])
        except Exception as e:
            snap[n] = f"unreadable: {type(e).__name__}"
    return snap


def execute(outs, fp_kw, policy, workdir):
    import cubed

    wipe_intermediates(workdir)
    ex = advexec.SeqExecutor(policy)
    storetrace.TRACE.start(digest=True)
    exc = None
    res = None
    try:
        res = cubed.compute(*outs, executor=ex, **fp_kw)
        res = [np.asarray(r) for r in res]
    except Exception as e:
        exc = runner.exc_info(e)
    events = storetrace.TRACE.stop()
    return res, exc, events, ex


def same(a, b):
    if isinstance(a, str) or isinstance(b, str):
        return a == b if isinstance(a, str) and isinstance(b, str) else False
    if a.shape != b.shape or a.dtype != b.dtype:
        return False
    return np.array_equal(a, b, equal_nan=a.dtype.kind in "fc")


def schedules_for(tasks, rng, exhaustive_limit=14, sample=6):
    """List of (label, policy)."""
    out = []
    for order in ("rev", "shuffle"):
        out.append((f"{order}", {"order": order, "seed": rng.getrandbits(16)}))
    non_create = tasks
    chosen = non_create if len(non_create) <= exhaustive_limit else rng.sample(non_create, sample)
    for t in chosen:
        for pos in ("dup_now", "dup_after_op", "dup_at_end"):
            out.append((f"{pos}:{t}", {"order": rng.choice(["fwd", "rev", "shuffle"]), "seed": rng.getrandbits(16), pos: {t}}))
    if len(non_create) >= 2:
        k = rng.randint(2, min(6, len(non_create)))
        ms = rng.sample(non_create, k)
        pol = {"order": "shuffle", "seed": rng.getrandbits(16), "dup_now": set(), "dup_after_op": set(), "dup_at_end": set()}
        for t in ms:
            pol[rng.choice(["dup_now", "dup_after_op", "dup_at_end"])].add(t)
        out.append((f"multiset:{k}", pol))
    return out, len(non_create) <= exhaustive_limit


def jsonable_policy(pol):
    return {k: (sorted([list(map(lambda x: list(x) if isinstance(x, tuple) else x, t)) for t in v]) if isinstance(v, set) else v) for k, v in pol.items() if k != "task_hook"}


def policy_from_json(j):
    pol = {}
    for k, v in j.items():
        if k.startswith("dup_"):
            pol[k] = {(t[0], tuple(t[1]) if isinstance(t[1], list) else t[1]) for t in v}
        else:
            pol[k] = v
    return pol


def check_recipe(recipe, optimize, workdir, rng, res, fresh_budget, only=None):
    """Runs reference + schedules for one recipe; returns violations."""
    import cubed

    storetrace.install()
    viols = []
    os.makedirs(workdir, exist_ok=True)
    spec = runner.make_spec(workdir, zarr_compressor=None)
    env = gen.BuildEnv(spec, workdir)
    try:
        vals = gen.cu_build(recipe, env)
        outs = [vals[i] for i in recipe["outputs"]]
        fp_kw = {"optimize_graph": optimize}
        fp = cubed.plan(*outs, **fp_kw)
    except Exception:
        res["counters"]["declined"] += 1
        return viols
    if fp.num_tasks > 120:
        res["counters"]["skipped_too_many_tasks"] += 1
        return viols
    ref, exc, ev, ex0 = execute(outs, fp_kw, {"order": "fwd"}, workdir)
    if exc is not None:
        res["counters"]["declined"] += 1
        return viols
    ref_snap = read_back(fp)
    # array-creation tasks are retried/backed up like any other task: re-running one must not wipe data
    tasks = list(dict.fromkeys(ex0.executed))
    res["counters"]["plans"] += 1
    res["counters"]["tasks_in_plans"] += len(ex0.executed)
    ops = gen.recipe_ops(recipe)

    # random arrays: distinct blocks draw from distinct streams
    for i, node in enumerate(recipe["nodes"]):
        if node["op"] == "random" and i in recipe["outputs"]:
            a = ref[recipe["outputs"].index(i)]
            ch = node["p"]["chunks"]
            blocks = {}
            import itertools

            for bid in itertools.product(*[range(-(-d // c)) for d, c in zip(a.shape, ch)]):
                sl = tuple(slice(b * c, (b + 1) * c) for b, c in zip(bid, ch))
                blk = a[sl]
                if blk.size >= 3:
                    blocks.setdefault((blk.shape, blk.tobytes()), []).append(bid)
            res["counters"]["random_arrays_checked"] += 1
            for (shp, _), bids in blocks.items():
                if len(bids) > 1:
                    viols.append({"kind": "random-blocks-identical", "msg": f"random array node {i}: blocks {bids[:3]} are identical", "facts": {"ops": ops}})
            if a.size and (a.min() < 0 or a.max() >= 1):
                viols.append({"kind": "random-out-of-range", "msg": f"random array values outside [0,1)", "facts": {"ops": ops}})

    sched, exhaustive = schedules_for(tasks, rng)
    if only is not None:
        sched = [(only["label"], policy_from_json(only["policy"]))]
    if exhaustive:
        res["counters"]["plans_with_all_single_duplicates"] += 1
    for label, pol in sched:
        got, exc, ev, ex = execute(outs, fp_kw, pol, workdir)
        res["evaluations"] += 1
        res["counters"]["schedules"] += 1
        _rc.bump(res["hist"]["config"], label.split(":")[0])
        case = {"recipe": recipe, "optimize": optimize, "label": label, "policy": jsonable_policy(pol)}
        facts = {"ops": ops, "schedule": label, "optimize": optimize}
        if exc is not None:
            viols.append({"kind": "schedule-fails", "msg": f"schedule {label}: {exc['type']}: {exc['msg'][:200]} at {exc['where']}", "facts": dict(facts, exc=exc), "case": case})
            continue
        res["nontrivial"].append(gen.rhash([recipe, optimize, label]))
        # final results
        for k, (a, b) in enumerate(zip(ref, got)):
            if not same(a, b):
                viols.append({"kind": "result-differs", "msg": f"schedule {label}: requested array #{k} differs from the reference schedule", "facts": facts, "case": case})
                break
        # every produced stored array
        snap = read_back(fp)
        res["counters"]["stored_arrays_compared"] += len(snap)
        for n in ref_snap:
            if n not in snap or not same(ref_snap[n], snap[n]):
                viols.append({"kind": "stored-chunks-differ", "msg": f"schedule {label}: stored array {n} differs from the reference schedule", "facts": dict(facts, array=n), "case": case})
                break
        # repeated writes of one key must carry identical bytes
        seen = {}
        for e, arr, coords in storetrace.data_events(ev, op=("set",)):
            k = (e["root"], e["key"])
            if k in seen and seen[k] != e.get("dig"):
                viols.append({"kind": "rewrite-with-different-bytes", "msg": f"schedule {label}: chunk {e['key']} written twice with different content (task {e.get('task')})", "facts": dict(facts, key=e["key"]), "case": case})
                break
            seen[k] = e.get("dig")
            res["counters"]["chunk_writes_observed"] += 1
    # fresh-process execution of every task (what a remote worker does)
    if fresh_budget[0] > 0 and 2 <= len(ex0.executed) <= 14 and only is None:
        fresh_budget[0] -= 1
        got, exc, ev, ex = execute(outs, fp_kw, {"order": "shuffle", "seed": 3, "fresh_process": True}, workdir)
        res["evaluations"] += 1
        res["counters"]["fresh_process_plans"] += 1
        res["counters"]["fresh_process_tasks"] += len(ex.executed)
        case = {"recipe": recipe, "optimize": optimize, "label": "fresh", "policy": {"order": "shuffle", "seed": 3, "fresh_process": True}}
        if exc is not None:
            viols.append({"kind": "fresh-process-fails", "msg": f"{exc['type']}: {exc['msg'][:300]}", "facts": {"ops": ops, "exc": exc}, "case": case})
        else:
            res["nontrivial"].append(gen.rhash([recipe, optimize, "fresh"]))
            for k, (a, b) in enumerate(zip(ref, got)):
                if not same(a, b):
                    viols.append({"kind": "fresh-process-result-differs", "msg": f"requested array #{k} differs when every task runs in a fresh process", "facts": {"ops": ops}, "case": case})
                    break
    return viols


EXTRA = ("plans", "tasks_in_plans", "schedules", "stored_arrays_compared", "chunk_writes_observed", "declined",
         "fresh_process_plans", "fresh_process_tasks", "random_arrays_checked", "plans_with_all_single_duplicates",
         "skipped_too_many_tasks", "random_block_pairs_checked")
GEN_KW = {"allow_zero": False, "weights": {"random": 6, "multi": 6, "rechunk": 8, "reduce": 12, "cum": 5, "create": 4}}


def run_shard(spec, workdir):
    rng = random.Random(spec["seed"])
    res = _rc.new_result(EXTRA)
    fresh_budget = [spec.get("fresh", 1)]
    for k in range(spec["n"]):
        g = gen.Gen(rng.getrandbits(48), maxdim=spec["maxdim"], depth=spec["depth"], **GEN_KW)
        g.maxblocks = 16
        recipe, np_vals = g.generate()
        for i, node in enumerate(recipe["nodes"]):
            if node["op"] == "random" and i not in recipe["outputs"]:
                recipe["outputs"].append(i)
        for o in gen.recipe_ops(recipe):
            _rc.bump(res["hist"]["ops"], o)
        res["counters"]["recipes"] += 1
        wd = os.path.join(workdir, f"r{k}")
        optimize = rng.random() < 0.5
        viols = check_recipe(recipe, optimize, wd, rng, res, fresh_budget)
        for v in viols:
            v.setdefault("property", PROPERTY)
            v.setdefault("case", {"recipe": recipe, "optimize": optimize})
        res["violations"].extend(viols)
        shutil.rmtree(wd, ignore_errors=True)
        if not res["samples"] and spec.get("shard", 0) == 0:
            res["samples"].append({"recipe": recipe, "optimize": optimize, "schedules": "see rule"})
    res["violations"].extend(random_stratum(spec.get("randoms", 12), workdir, rng, res))
    return res


def random_stratum(n, workdir, rng, res):
    """cubed.random arrays on 1-4 dimensional block grids: re-executed tasks regenerate identical blocks
    (reversed order + duplicates), distinct blocks share no value."""
    import itertools

    import cubed
    import cubed.random

    viols = []
    for k in range(n):
        nd = rng.choice([1, 2, 3, 3, 3, 4])
        nb = [rng.randint(1, 3) for _ in range(nd)]
        ch = [rng.randint(1, 3) for _ in range(nd)]
        shape = [b * c - (rng.randint(0, c - 1) if rng.random() < 0.4 else 0) for b, c in zip(nb, ch)]
        shape = [max(1, d) for d in shape]
        wd = os.path.join(workdir, f"rand{k}")
        os.makedirs(wd, exist_ok=True)
        spec = runner.make_spec(wd, zarr_compressor=None)
        a = cubed.random.random(tuple(shape), chunks=tuple(ch), spec=spec)
        case = {"random": {"shape": shape, "chunks": ch}}
        try:
            ref = np.asarray(a.compute(executor=advexec.SeqExecutor({"order": "fwd"})))
            wipe_intermediates(wd)
            tasks = None
            again = np.asarray(a.compute(executor=advexec.SeqExecutor({"order": "rev", "dup_now": set()})))
            ex = advexec.SeqExecutor({"order": "shuffle", "seed": k})
            third = np.asarray(a.compute(executor=ex))
        except Exception as e:
            viols.append({"kind": "random-array-fails", "msg": f"{type(e).__name__}: {e}"[:300], "facts": case, "case": case})
            continue
        res["evaluations"] += 1
        res["counters"]["random_arrays_checked"] += 1
        res["nontrivial"].append(gen.rhash(["random", shape, ch]))
        if not (np.array_equal(ref, again) and np.array_equal(ref, third)):
            viols.append({"kind": "random-array-not-reproducible", "msg": f"random array {case} differs when its tasks are re-executed in another order", "facts": case, "case": case})
        grid = [range(-(-d // c)) for d, c in zip(shape, ch)]
        seen = {}
        for bid in itertools.product(*grid):
            sl = tuple(slice(b * c, (b + 1) * c) for b, c in zip(bid, ch))
            for val in np.unique(ref[sl]):
                if val in seen and seen[val] != bid:
                    viols.append({"kind": "random-blocks-share-values", "msg": f"random array shape {shape} chunks {ch}: blocks {seen[val]} and {bid} contain the same value {val!r} (same random stream)", "facts": case, "case": case})
                    break
                seen[val] = bid
            else:
                continue
            break
        res["counters"]["random_block_pairs_checked"] += len(list(itertools.product(*grid)))
        if ref.size and (ref.min() < 0 or ref.max() >= 1):
            viols.append({"kind": "random-out-of-range", "msg": "values outside [0,1)", "facts": case, "case": case})
        shutil.rmtree(wd, ignore_errors=True)
    for v in viols:
        v["property"] = PROPERTY
    return viols


def replay(rep, workdir):
    case = rep["case"]
    res = _rc.new_result(EXTRA)
    only = {"label": case["label"], "policy": case["policy"]} if "policy" in case else None
    if "random" in case:
        class R(random.Random):
            pass
        res["violations"] = []
        import cubed.random
        # re-run the same geometry
        r = case["random"]
        wd = os.path.join(workdir, "rand")
        os.makedirs(wd, exist_ok=True)
        import itertools
        a = cubed.random.random(tuple(r["shape"]), chunks=tuple(r["chunks"]), spec=runner.make_spec(wd))
        ref = np.asarray(a.compute(executor=advexec.SeqExecutor({"order": "fwd"})))
        seen = {}
        for bid in itertools.product(*[range(-(-d // c)) for d, c in zip(r["shape"], r["chunks"])]):
            sl = tuple(slice(b * c, (b + 1) * c) for b, c in zip(bid, r["chunks"]))
            for val in np.unique(ref[sl]):
                if val in seen and seen[val] != bid:
                    res["violations"].append({"property": PROPERTY, "kind": "random-blocks-share-values", "msg": f"blocks {seen[val]} and {bid} share {val!r}", "facts": case, "case": case})
                seen[val] = bid
        return res
    viols = check_recipe(case["recipe"], case.get("optimize", True), os.path.join(workdir, "replay"), random.Random(0), res, [1], only=only)
    for v in viols:
        v.setdefault("property", PROPERTY)
        v.setdefault("case", case)
    res["violations"] = viols
    return res


def finalize(tier, merged):
    c = merged["counters"]
    return {
        "rule": RULE,
        "floors": [
            ("adversarial schedules executed", c.get("schedules", 0), 3000 if tier == "quick" else 15000),
            ("stored arrays compared with the reference schedule", c.get("stored_arrays_compared", 0), 6000 if tier == "quick" else 30000),
            ("tasks executed in a fresh process", c.get("fresh_process_tasks", 0), 30 if tier == "quick" else 200),
            ("random arrays checked (re-execution + distinct streams)", c.get("random_arrays_checked", 0), 150 if tier == "quick" else 1250),
        ],
        "assumptions": ASSUMPTIONS,
    }
