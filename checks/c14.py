"""C14 - rechunk plans are well-formed, aligned and memory-bounded for every geometry.

Monitors: icontract post-conditions on the real planners (vendor multistage_rechunking_plan and
cubed.core.rechunk.multistage_regular_rechunking_plan), rebound on the modules that imported them
by name, with an evaluation counter; and end-to-end rechunks computed by the real code with the
C05 store-level monitors (single writer, whole-chunk writes, coverage) and a NumPy comparison.
Termination is restated as a step bound: <= MAX_STAGES stages per plan and a generous wall-clock
watchdog per shard whose firing is inconclusive.
"""
from __future__ import annotations

import itertools
import os
import random
import shutil
import warnings
from math import prod

import numpy as np

from checks import _rc
from vlib import advexec, gen, runner

PROPERTY = "C14"
LEVEL = "exploration"
TIMEOUT = {"quick": 1500, "thorough": 7200}
RULE = (
    "planner calls: shapes of 1-3 dims with sizes from a set rich in primes and powers (1..1000), source/target chunks "
    "uniform in [1, dim], itemsize in {1,2,4,8,16}, max_mem from tight (= the larger of source/target chunk) to loose, "
    "min_mem from 0 to above max_mem, both planners (allow_irregular True/False); plus the bounded-exhaustive sweep of all "
    "1-D geometries with dim <= 8 and all 2-D geometries with dims <= 4 under six memory settings. End to end: x.rechunk(c) "
    "under small allowed_mem, computed and compared. Non-trivial = the planner returned a plan (not an error) with source "
    "!= target chunks; distinct by hash of the call arguments"
)
ASSUMPTIONS = [
    "post-conditions demanded are those stated by the property: stages chain from a read of the source grid to the target chunking, every read/intermediate/write chunk fits max_mem and lies in [1, dim], intermediate = min(read, write), a stage's write chunk lines up with (is a multiple of, or not larger than, or spans) the chunks it writes; 'read chunks are multiples of source chunks' is deliberately not demanded",
    "termination: bounded by MAX_STAGES stage iterations and a wall-clock watchdog (inconclusive if it fires)",
]
NSHARDS = {"quick": 16, "thorough": 16}
SIZES = [1, 2, 3, 4, 5, 7, 8, 9, 12, 16, 17, 25, 31, 32, 60, 64, 100, 127, 128, 360, 1000]

EVALS = {"irregular": 0, "regular": 0}
_installed = False


class PostBroken(Exception):
    pass


def check_plan(kind, shape, source_chunks, target_chunks, itemsize, min_mem, max_mem, result):
    """-> None or description of the broken post-condition."""
    from cubed.vendor.rechunker.algorithm import MAX_STAGES

    stages = list(result)
    if len(stages) == 0:
        return "empty plan"
    if len(stages) > MAX_STAGES:
        return f"{len(stages)} stages > MAX_STAGES"
    nd = len(shape)
    prev_write = None
    for i, st in enumerate(stages):
        if len(st) != 3:
            return f"stage {i} is not (read, intermediate, write)"
        rd, it, wr = (tuple(int(x) for x in c) for c in st)
        for nm, ch in (("read", rd), ("intermediate", it), ("write", wr)):
            if len(ch) != nd:
                return f"stage {i} {nm} chunks {ch} have wrong rank"
            if any(c < 1 or c > n for c, n in zip(ch, shape)):
                return f"stage {i} {nm} chunks {ch} outside [1, dim] for shape {tuple(shape)}"
            if itemsize * prod(ch) > max_mem:
                return f"stage {i} {nm} chunks {ch} need {itemsize * prod(ch)} bytes > max_mem {max_mem}"
        if it != tuple(min(a, b) for a, b in zip(rd, wr)):
            return f"stage {i} intermediate {it} != min(read {rd}, write {wr})"
        if prev_write is not None and rd != prev_write:
            return f"stage {i} reads {rd} but stage {i - 1} wrote {prev_write}"
        prev_write = wr
    last = stages[-1][2]
    for n, wc, tc in zip(shape, last, target_chunks):
        if not (wc == n or wc % tc == 0 or (wc == tc)):
            return f"last write chunks {tuple(last)} do not line up with target chunks {tuple(target_chunks)} (dim {n})"
    if kind == "regular":
        # every copy chunk lines up with the chunk grid it writes
        for i, (rd, it, wr) in enumerate(stages):
            for n, cc, tc in zip(shape, rd, wr):
                if not (cc <= tc or cc == n or cc % tc == 0):
                    return f"regular planner: stage {i} read chunk {cc} neither <=, nor a multiple of, nor spanning, write chunk {tc}"
    return None


def install_contracts():
    """icontract post-conditions on the real planner functions, rebound wherever they were imported."""
    global _installed
    if _installed:
        return
    import icontract

    import cubed.core.ops as ops
    import importlib

    crech = importlib.import_module("cubed.core.rechunk")
    import cubed.vendor.rechunker.algorithm as alg

    def post_irregular(shape, source_chunks, target_chunks, itemsize, min_mem, max_mem, result):
        EVALS["irregular"] += 1
        return check_plan("irregular", shape, source_chunks, target_chunks, itemsize, min_mem, max_mem, result) is None

    def post_regular(shape, source_chunks, target_chunks, itemsize, min_mem, max_mem, result):
        EVALS["regular"] += 1
        return check_plan("regular", shape, source_chunks, target_chunks, itemsize, min_mem, max_mem, result) is None

    def err_i(shape, source_chunks, target_chunks, itemsize, min_mem, max_mem, result):
        return PostBroken(check_plan("irregular", shape, source_chunks, target_chunks, itemsize, min_mem, max_mem, result))

    def err_r(shape, source_chunks, target_chunks, itemsize, min_mem, max_mem, result):
        return PostBroken(check_plan("regular", shape, source_chunks, target_chunks, itemsize, min_mem, max_mem, result))

    wi = icontract.ensure(post_irregular, error=err_i)(alg.multistage_rechunking_plan)
    wr = icontract.ensure(post_regular, error=err_r)(crech.multistage_regular_rechunking_plan)
    alg.multistage_rechunking_plan = wi
    crech.multistage_regular_rechunking_plan = wr
    ops.multistage_rechunking_plan = wi
    ops.multistage_regular_rechunking_plan = wr
    _installed = True


def planners():
    import importlib

    crech = importlib.import_module("cubed.core.rechunk")
    import cubed.vendor.rechunker.algorithm as alg

    return {"irregular": alg.multistage_rechunking_plan, "regular": crech.multistage_regular_rechunking_plan}


def call_planner(kind, args, res):
    """Calls the contracted planner; classifies the outcome."""
    f = planners()[kind]
    res["evaluations"] += 1
    res["counters"]["planner_calls"] += 1
    case = dict(args, kind=kind)
    try:
        with warnings.catch_warnings():
            warnings.simplefilter("ignore")
            plan = f(**args)
    except PostBroken as e:
        return [{"kind": "post-condition", "msg": f"{kind} planner {args}: {e}", "facts": {"planner": kind, "what": str(e)[:80]}, "case": case}]
    except (ValueError, NotImplementedError):
        res["counters"]["explicit_rejections"] += 1
        return []
    except BaseException as e:  # AssertionError, ZeroDivisionError, ...
        return [{"kind": "planner-crashed", "msg": f"{kind} planner {args}: {type(e).__name__}: {str(e)[:160]}",
                 "facts": {"planner": kind, "exc": type(e).__name__}, "case": case}]
    res["counters"]["plans_returned"] += 1
    res["counters"]["stages_returned"] += len(plan)
    res["maxes"]["max_stages"] = max(res["maxes"].get("max_stages", 0), len(plan))
    if tuple(args["source_chunks"]) != tuple(args["target_chunks"]):
        res["nontrivial"].append(gen.rhash(case))
    if len(plan) > 1:
        res["counters"]["multi_stage_plans"] += 1
    return []


def draw_args(rng):
    nd = rng.choice([1, 1, 2, 2, 2, 3])
    shape = tuple(rng.choice(SIZES) for _ in range(nd))
    while prod(shape) > 5_000_000:
        shape = tuple(max(1, s // 2) for s in shape)
    src = tuple(rng.randint(1, n) for n in shape)
    tgt = tuple(rng.randint(1, n) for n in shape)
    if rng.random() < 0.2:
        src = tuple(rng.choice([1, n]) for n in shape)
    if rng.random() < 0.2:
        tgt = tuple(rng.choice([1, n]) for n in shape)
    if nd >= 2 and rng.random() < 0.35:
        # transposing patterns with a tight budget are what needs several stages
        shape = tuple(rng.choice([25, 31, 32, 60, 64, 100, 127, 128, 360, 1000]) for _ in range(nd))
        while prod(shape) > 5_000_000:
            shape = tuple(max(8, s // 2) for s in shape)
        k = rng.randrange(nd)
        src = tuple(n if i == k else rng.choice([1, 1, 2, 3]) for i, n in enumerate(shape))
        k2 = rng.choice([i for i in range(nd) if i != k])
        tgt = tuple(n if i == k2 else rng.choice([1, 1, 2, 3]) for i, n in enumerate(shape))
    itemsize = rng.choice([1, 2, 4, 8, 16])
    need = itemsize * max(prod(src), prod(tgt))
    max_mem = int(need * rng.choice([1, 1, 1.1, 1.5, 2, 4, 10, 100, 0.9]))
    max_mem = max(1, max_mem)
    min_mem = int(max_mem * rng.choice([0, 0, 0.01, 0.05, 0.05, 0.33, 1, 1.5]))
    return {"shape": shape, "source_chunks": src, "target_chunks": tgt, "itemsize": itemsize, "min_mem": min_mem, "max_mem": max_mem}


def exhaustive_cases():
    for n in range(1, 9):
        for s in range(1, n + 1):
            for t in range(1, n + 1):
                yield (n,), (s,), (t,)
    for n1, n2 in itertools.product(range(1, 5), repeat=2):
        for s in itertools.product(range(1, n1 + 1), range(1, n2 + 1)):
            for t in itertools.product(range(1, n1 + 1), range(1, n2 + 1)):
                yield (n1, n2), s, t


def mem_settings(shape, s, t, itemsize):
    need = itemsize * max(prod(s), prod(t))
    total = itemsize * prod(shape)
    for mx, mn in ((need, 0), (need, need), (need * 2, need // 2), (total, 0), (total * 4, total // 20), (need + 1, 1)):
        yield max(1, mx), mn


def end_to_end(rng, workdir, res, k):
    """x.rechunk(c) computed under small allowed_mem with the C05 monitors."""
    import cubed
    import cubed.array_api as xp

    from checks import c05
    from vlib import blockshape, storetrace

    nd = rng.choice([1, 2, 2, 3])
    shape = tuple(rng.randint(2, 24) for _ in range(nd))
    while prod(shape) > 2500:
        shape = tuple(max(2, s // 2) for s in shape)
    src = tuple(rng.randint(1, n) for n in shape)
    tgt = tuple(rng.randint(1, n) for n in shape)
    dt = rng.choice(["float64", "int32", "int8", "complex128"])
    need = np.dtype(dt).itemsize * max(prod(src), prod(tgt))
    allowed = int(need * rng.choice([8, 10, 16, 40, 200]))
    reserved = 0
    if rng.random() < 0.5:
        # a Spec with reserved memory: the planner's budget is what is left of allowed_mem after it
        reserved = int(allowed * rng.choice([0.25, 0.5, 1.0, 3.0]))
        allowed += reserved
    kw = {}
    if rng.random() < 0.4:
        kw["allow_irregular"] = rng.random() < 0.5
    if rng.random() < 0.3:
        kw["min_mem"] = int(allowed * rng.choice([0.0, 0.01, 0.05]))
    case = {"e2e": {"shape": shape, "source_chunks": src, "target_chunks": tgt, "dtype": dt, "allowed_mem": allowed, "reserved_mem": reserved, "kw": kw}}
    wd = os.path.join(workdir, f"e{k}")
    data = (np.arange(prod(shape)) % 251).reshape(shape).astype(dt)
    out = []
    storetrace.install()
    blockshape.install()
    try:
        spec = cubed.Spec(work_dir=wd, allowed_mem=allowed, reserved_mem=reserved)
        a = xp.asarray(data, chunks=src, spec=spec)
        planned = False
        with warnings.catch_warnings():
            warnings.simplefilter("ignore")
            b = a.rechunk(tgt, **kw)
            want_chunks = cubed.utils.normalize_chunks(tgt, shape, dtype=data.dtype)
            if b.chunks != want_chunks:
                out.append({"kind": "wrong-result-chunks", "msg": f"rechunk to {tgt} declares chunks {b.chunks}", "facts": {}, "case": case})
            planned = True  # the planner accepted the request: its stages must now fit the Spec's memory
            fp = b.plan(optimize_graph=False)
            if fp.num_tasks > 600:
                return out
            ex = advexec.SeqExecutor({"order": "shuffle", "seed": k})
            storetrace.TRACE.start(digest=False)
            blockshape.start()
            try:
                got = b.compute(executor=ex, optimize_graph=False)
            finally:
                ev = storetrace.TRACE.stop()
                wr = blockshape.stop()
    except PostBroken as e:
        return [{"kind": "post-condition", "msg": f"end-to-end {case}: {e}", "facts": {"planner": "e2e"}, "case": case}]
    except (ValueError, NotImplementedError) as e:
        if planned and "exceeds allowed_mem" in str(e):
            # The planner accepted the request and the memory check then refused a stage. With tiny budgets the
            # few bytes of per-task bookkeeping arrays can do that legitimately, so the verdict is differential:
            # the same request with no reserved memory and the same net budget must be refused as well.
            res["counters"]["e2e_refused_by_memory_check_after_planning"] += 1
            if reserved > 0:
                try:
                    with warnings.catch_warnings():
                        warnings.simplefilter("ignore")
                        a2 = xp.asarray(data, chunks=src, spec=cubed.Spec(work_dir=wd + "-twin", allowed_mem=allowed - reserved, reserved_mem=0))
                        a2.rechunk(tgt, **kw).plan(optimize_graph=False).validate()
                    twin_ok = True
                except Exception:
                    twin_ok = False
                shutil.rmtree(wd + "-twin", ignore_errors=True)
                if twin_ok:
                    res["counters"]["e2e_rechunks"] += 1
                    return out + [{"kind": "rechunk-stages-over-budget", "msg": f"end-to-end {case}: the planner returned stages that the Spec's memory check refuses ({str(e)[:120]}), while the same request with reserved_mem=0 and allowed_mem={allowed - reserved} (the same net budget) is planned and admitted", "facts": {"reserved": True}, "case": case}]
        res["counters"]["e2e_rejected"] += 1
        return out
    except BaseException as e:
        return [{"kind": "rechunk-crashed", "msg": f"end-to-end {case}: {type(e).__name__}: {str(e)[:200]}", "facts": {"exc": type(e).__name__}, "case": case}]
    finally:
        pass
    res["evaluations"] += 1
    res["counters"]["e2e_rechunks"] += 1
    if reserved:
        res["counters"]["e2e_rechunks_with_reserved_mem"] += 1
    res["nontrivial"].append(gen.rhash(case))
    if not np.array_equal(np.asarray(got), data):
        out.append({"kind": "rechunk-changed-values", "msg": f"end-to-end {case}: values differ after rechunk", "facts": {}, "case": case})
    # per-copy-op projected memory within the budget derived from the Spec
    for n, d in fp.dag.nodes(data=True):
        op = d.get("primitive_op")
        if op is not None and op.projected_mem > allowed:
            out.append({"kind": "copy-op-over-budget", "msg": f"{case}: op {n} projected {op.projected_mem} > allowed {allowed}", "facts": {}, "case": case})
    rec = {"events": ev, "blockwrites": wr, "exc": None}
    scratch = _rc.new_result(c05.EXTRA)
    for v in c05.judge({"nodes": [], "outputs": []}, {}, {"executor": "seq"}, rec, scratch, wd) or []:
        v["case"] = case
        v["msg"] = f"end-to-end {case}: " + v["msg"]
        out.append(v)
    res["counters"]["e2e_chunk_sets"] += scratch["counters"]["chunk_sets"]
    shutil.rmtree(wd, ignore_errors=True)
    return out


def shards(tier, seed):
    ns = NSHARDS[tier]
    return [{"index": i, "of": ns, "random": 30000 if tier == "quick" else 400000, "e2e": 40 if tier == "quick" else 700,
             "watchdog_s": TIMEOUT[tier] - 30} for i in range(ns)]


EXTRA = ("e2e_refused_by_memory_check_after_planning", "e2e_rechunks_with_reserved_mem", "planner_calls", "plans_returned", "stages_returned", "multi_stage_plans", "explicit_rejections", "e2e_rechunks",
         "e2e_rejected", "e2e_chunk_sets", "contract_evaluations_irregular", "contract_evaluations_regular", "exhaustive_cases")


def run_shard(spec, workdir):
    install_contracts()
    rng = random.Random(spec["seed"])
    res = _rc.new_result(EXTRA)
    viols = []
    for j, (shape, s, t) in enumerate(exhaustive_cases()):
        if j % spec["of"] != spec["index"]:
            continue
        res["counters"]["exhaustive_cases"] += 1
        for itemsize in (1, 8):
            for mx, mn in mem_settings(shape, s, t, itemsize):
                for kind in ("irregular", "regular"):
                    viols += call_planner(kind, {"shape": shape, "source_chunks": s, "target_chunks": t, "itemsize": itemsize, "min_mem": mn, "max_mem": mx}, res)
    for _ in range(spec["random"]):
        args = draw_args(rng)
        viols += call_planner(rng.choice(["irregular", "regular"]), args, res)
    for k in range(spec["e2e"]):
        viols += end_to_end(rng, workdir, res, k)
    for v in viols:
        v["property"] = PROPERTY
    res["violations"] = viols
    res["counters"]["contract_evaluations_irregular"] = EVALS["irregular"]
    res["counters"]["contract_evaluations_regular"] = EVALS["regular"]
    if spec["index"] == 0:
        res["samples"] = [draw_args(random.Random(1)), {"exhaustive": "all 1-D dims<=8 and 2-D dims<=4 geometries x 2 itemsizes x 6 memory settings x 2 planners"}]
    return res


def replay(rep, workdir):
    install_contracts()
    res = _rc.new_result(EXTRA)
    case = dict(rep["case"])
    if "e2e" in case:
        class R(random.Random):
            pass
        print("end-to-end replays are re-drawn from the recorded geometry")
        e = case["e2e"]
        import cubed, cubed.array_api as xp
        data = (np.arange(prod(e["shape"])) % 251).reshape(e["shape"]).astype(e["dtype"])
        try:
            a = xp.asarray(data, chunks=tuple(e["source_chunks"]), spec=cubed.Spec(work_dir=os.path.join(workdir, "r"), allowed_mem=e["allowed_mem"], reserved_mem=e.get("reserved_mem", 0)))
            b = a.rechunk(tuple(e["target_chunks"]), **e["kw"])
            try:
                got = b.compute(optimize_graph=False)
            except ValueError as ex:
                if "exceeds allowed_mem" in str(ex) and e.get("reserved_mem", 0) > 0:
                    try:
                        a2 = xp.asarray(data, chunks=tuple(e["source_chunks"]), spec=cubed.Spec(work_dir=os.path.join(workdir, "r2"), allowed_mem=e["allowed_mem"] - e["reserved_mem"], reserved_mem=0))
                        a2.rechunk(tuple(e["target_chunks"]), **e["kw"]).plan(optimize_graph=False).validate()
                        res["violations"].append({"property": PROPERTY, "kind": "rechunk-stages-over-budget", "msg": str(ex)[:200], "facts": {}, "case": case})
                    except Exception:
                        pass
                    return res
                raise
            if not np.array_equal(np.asarray(got), data):
                res["violations"].append({"property": PROPERTY, "kind": "rechunk-changed-values", "msg": "values differ", "facts": {}, "case": case})
        except (ValueError, NotImplementedError):
            pass
        except BaseException as ex:
            res["violations"].append({"property": PROPERTY, "kind": "rechunk-crashed", "msg": f"{type(ex).__name__}: {ex}", "facts": {}, "case": case})
        return res
    kind = case.pop("kind")
    for k in ("shape", "source_chunks", "target_chunks"):
        case[k] = tuple(case[k])
    v = call_planner(kind, case, res)
    for x in v:
        x["property"] = PROPERTY
    res["violations"] = v
    return res


def finalize(tier, merged):
    c = merged["counters"]
    return {
        "rule": RULE,
        "floors": [
            ("planner calls", c.get("planner_calls", 0), 400000 if tier == "quick" else 2500000),
            ("plans returned and checked by the post-condition", c.get("plans_returned", 0), 250000 if tier == "quick" else 1500000),
            ("multi-stage plans", c.get("multi_stage_plans", 0), 10000 if tier == "quick" else 75000),
            ("icontract post-condition evaluations", c.get("contract_evaluations_irregular", 0) + c.get("contract_evaluations_regular", 0), 250000 if tier == "quick" else 1500000),
            ("end-to-end rechunks computed", c.get("e2e_rechunks", 0), 400 if tier == "quick" else 4000),
            ("of which under a Spec with reserved_mem > 0", c.get("e2e_rechunks_with_reserved_mem", 0), 120 if tier == "quick" else 1250),
        ],
        "coverage_extra": {"bounded_exhaustive_part": "all 1-D geometries with dim <= 8 and all 2-D geometries with dims <= 4 (source x target chunks), itemsize {1,8}, six memory settings, both planners"},
        "assumptions": ASSUMPTIONS,
    }
