"""C05 - every stored chunk has exactly one writer task, written whole; outputs covered.

Monitors: the attributed store trace (vlib.storetrace; every task runs under vlib.advexec.SeqExecutor,
which sets the task context variable, so each store `set` is attributed to one task) and the
block-write hook (vlib.blockshape). Oracle: the chunk grid read back from the created array's own
metadata in storage (regular, rectilinear, sharded), independent of the plan.
"""
from __future__ import annotations

import itertools
import os

from checks import _rc
from vlib import advexec, gen, runner, storetrace

PROPERTY = "C05"
LEVEL = "exploration"
TIMEOUT = {"quick": 1500, "thorough": 7200}
RULE = (
    "recipes from vlib.gen.Gen biased to rechunks (regular and allow_irregular, multi-stage under small allowed_mem), "
    "multi-output ops and reductions with structured intermediates; every task runs one at a time with attribution. "
    "Plus 24 (quick) / 160 (thorough) per shard direct rechunks of 2-D/3-D arrays (14-56 per axis, thin chunks turned "
    "through 90 degrees, allow_irregular False/True/default) under budgets of 150-1200 elements, which need 2+ copy stages. "
    "Non-trivial = run completed and >= 1 produced array with more than one stored chunk; distinct by hash of (recipe, configuration)"
)
ASSUMPTIONS = [
    "tasks are executed one at a time by the harness executor so that every store event has exactly one current task",
    "produced arrays = arrays whose zarr.json was written during the computation",
    "Zarr's own incidental read of an edge chunk is not a cubed-level read-modify-write and does not decide",
]
NSHARDS = {"quick": 16, "thorough": 16}
PER_SHARD = {"quick": 80, "thorough": 480}


def shards(tier, seed):
    return [
        {"n": PER_SHARD[tier], "maxdim": 9 if tier == "quick" else 13, "depth": 4 if tier == "quick" else 6,
         "stores": 60 if tier == "quick" else 360, "mstage": 24 if tier == "quick" else 160, "watchdog_s": TIMEOUT[tier] - 30}
        for _ in range(NSHARDS[tier])
    ]


def choose_cfgs(rng):
    cfgs = [{"executor": "seq", "optimize": rng.random() < 0.5}]
    # small allowed_mem forces multi-stage rechunks (copy chunks smaller than target chunks)
    if rng.random() < 0.5:
        cfgs.append({"executor": "seq", "optimize": rng.random() < 0.5, "spec": {"allowed_mem": rng.choice([2000, 4000, 10000, 40000])}})
    else:
        cfgs.append({"executor": "seq", "optimize": not cfgs[0]["optimize"]})
    return cfgs


def per_run(recipe, cfg):
    return {"executor": advexec.SeqExecutor({"order": "shuffle", "seed": 1})}


def expected_keys(root, path):
    """All data-chunk keys of the array at (root, path), from its stored metadata. None for groups."""
    import zarr

    try:
        z = zarr.open_array(store=root, path=path or None, mode="r")
    except Exception:
        return None, None
    shape = z.shape
    try:
        unit = z.shards if getattr(z, "shards", None) is not None else z.chunks
        counts = [max(0, -(-d // c)) for d, c in zip(shape, unit)]
    except NotImplementedError:
        counts = [len(c) for c in z.read_chunk_sizes]
    if len(shape) == 0:
        return {()}, z
    if any(d == 0 for d in shape):
        return set(), z
    return set(itertools.product(*[range(n) for n in counts])), z


def judge(recipe, np_vals, cfg, rec, res, wd):
    out = []
    ops = gen.recipe_ops(recipe)
    events = rec.get("events") or []
    writes = rec.get("blockwrites") or []

    def V(kind, msg, **facts):
        facts.update(config=cfg, ops=ops)
        out.append({"kind": kind, "msg": msg, "facts": facts})

    # (a) whole-chunk writes: every region a task writes is a union of whole stored chunks
    for w in writes:
        if "monitor_error" in w:
            res["inconclusive"].append("block monitor error: " + w["monitor_error"])
            continue
        res["counters"]["block_writes"] += 1
        if not w["whole"]:
            V("partial-chunk-write",
              f"task {w.get('task')} wrote region {list(zip(w['starts'], w['stops']))} of array {w['path']} (shape {tuple(w['shape'])}) "
              f"which is not a union of whole stored chunks of its grid {w['grid']}", write=w)
    if rec["exc"] is not None:
        return out
    # (b) single writer per stored chunk
    produced = {}
    for e in events:
        if e["op"] in ("set", "set_if_not_exists") and "err" not in e:
            k, arr, what = storetrace.classify_key(e["key"])
            if k == "meta" and what == "zarr.json":
                produced.setdefault((e["root"], arr), {})
    setters = {}
    for e, arr, coords in storetrace.data_events(events, op=("set", "set_if_not_exists")):
        if "err" in e:
            continue
        key = (e["root"], arr)
        if key not in produced:
            continue
        setters.setdefault(key, {}).setdefault(coords, []).append(e.get("task"))
        res["counters"]["chunk_sets"] += 1
        if e.get("task") is None:
            res["inconclusive"].append(f"unattributed data write {e['key']}")
    for key, chunks in setters.items():
        for coords, tasks in chunks.items():
            if len(set(tasks)) > 1:
                V("multiple-writers", f"stored chunk {coords} of {key[1]} was written by {len(set(tasks))} tasks: {sorted(set(map(str, tasks)))[:4]}",
                  array=key[1], coords=coords, tasks=[str(t) for t in tasks][:6])
            elif len(tasks) > 1:
                V("chunk-written-twice", f"stored chunk {coords} of {key[1]} was written {len(tasks)} times by task {tasks[0]}",
                  array=key[1], coords=coords, tasks=[str(t) for t in tasks][:6])
    # (c) coverage: every chunk of every produced array's grid was set
    for (root, arr) in produced:
        want, z = expected_keys(root, arr)
        if want is None:
            continue
        got = set(setters.get((root, arr), {}))
        res["counters"]["arrays_checked"] += 1
        res["counters"]["chunks_expected"] += len(want)
        if len(want) > 1:
            res["counters"]["multi_chunk_arrays"] += 1
        missing = want - got
        extra = got - want
        if missing:
            V("chunk-never-written", f"array {arr} (shape {z.shape}): {len(missing)} of {len(want)} stored chunks were never written, e.g. {sorted(missing)[:3]}",
              array=arr, missing=sorted(missing)[:10])
        if extra:
            V("write-outside-grid", f"array {arr}: writes to keys outside its grid: {sorted(extra)[:3]}", array=arr)
    return out


def judge_store_targets(c, obs, res):
    """C05 monitors on user-supplied store targets (workload shared with C11)."""
    import itertools

    out = []
    roots = obs["target_roots"]

    def V(kind, msg, **facts):
        out.append({"kind": kind, "msg": f"{msg} | store call {c}", "facts": dict(facts, call=c)})

    for w in obs["writes"]:
        if "monitor_error" in w or w.get("root") not in roots:
            continue
        res["counters"]["block_writes"] += 1
        res["counters"]["target_block_writes"] += 1
        if not w["whole"]:
            V("partial-chunk-write", f"task {w.get('task')} wrote region {list(zip(w['starts'], w['stops']))} of the target (shape {tuple(w['shape'])}) "
              f"which is not a union of whole stored chunks of its grid {w['grid']}", write=w)
    setters = {}
    for e, arr, coords in storetrace.data_events(obs["events"], op=("set", "set_if_not_exists")):
        if "err" in e or e["root"] not in roots:
            continue
        setters.setdefault((e["root"], arr), {}).setdefault(coords, []).append(e.get("task"))
        res["counters"]["chunk_sets"] += 1
    for key, chunks in setters.items():
        for coords, tasks in chunks.items():
            if len(set(tasks)) > 1:
                V("multiple-writers", f"stored chunk {coords} of target {os.path.basename(key[0])} was written by {len(set(tasks))} tasks: {sorted(set(map(str, tasks)))[:4]}",
                  coords=coords)
            elif len(tasks) > 1:
                V("chunk-written-twice", f"stored chunk {coords} of target was written {len(tasks)} times by task {tasks[0]}", coords=coords)
    # coverage of the requested region
    for root in roots:
        for (r, arr), chunks in setters.items():
            if r != root:
                continue
            want, z = expected_keys(root, arr)
            if want is None:
                continue
            if c["region"] not in ("none", "full") and c.get("region_slices"):
                unit = z.shards if getattr(z, "shards", None) is not None else z.chunks
                rngs = []
                for (a, b), u, t in zip(c["region_slices"], unit, z.shape):
                    a = 0 if a is None else a
                    b = t if b is None else b
                    rngs.append(range(a // u, -(-b // u)))
                want = set(itertools.product(*rngs))
            res["counters"]["arrays_checked"] += 1
            res["counters"]["chunks_expected"] += len(want)
            missing = want - set(chunks)
            extra = set(chunks) - want
            if missing:
                V("chunk-never-written", f"target: {len(missing)} of {len(want)} stored chunks intersecting the region were never written, e.g. {sorted(missing)[:3]}")
            if extra:
                V("write-outside-region", f"target: chunks outside the requested region were written: {sorted(extra)[:3]}")
    return out


def nontrivial(recipe, np_vals, cfg, rec):
    return rec["exc"] is None and bool(rec.get("events"))


EXTRA = ("multi_stage_rechunks", "block_writes", "chunk_sets", "arrays_checked", "chunks_expected", "multi_chunk_arrays", "store_calls", "target_block_writes")
GEN_KW = {"weights": {"rechunk": 14, "multi": 6, "reduce": 12, "linalg": 6, "cum": 5}}


def mstage_case(rng):
    """A direct rechunk whose plan most likely needs two or more stages (candidates are screened with the
    planner itself - input selection only, the verdict never uses it)."""
    import math
    import warnings

    for attempt in range(12):
        nd = rng.choice([2, 2, 2, 3])
        shape = [rng.randint(14, 56) if nd == 2 else rng.randint(6, 14) for _ in range(nd)]
        src = [rng.randint(1, d) for d in shape]
        tgt = [rng.randint(1, d) for d in shape]
        if rng.random() < 0.85:
            # thin chunks turned through 90 degrees: the geometry that needs intermediate stages
            a, b = rng.sample(range(nd), 2)
            src[a], tgt[b] = rng.randint(1, 2), rng.randint(1, 2)
            src[b], tgt[a] = rng.randint(max(1, shape[b] // 4), shape[b]), rng.randint(max(1, shape[a] // 4), shape[a])
        dt = rng.choice(["int64", "float64", "int32", "int8"])
        item = {"int64": 8, "float64": 8, "int32": 4, "int8": 1}[dt]
        biggest = max(math.prod(src), math.prod(tgt))
        max_mem = int(item * biggest * rng.choice([1.05, 1.3, 1.6, 2.0, 4.0]))
        try:
            from cubed.core.rechunk import multistage_regular_rechunking_plan

            with warnings.catch_warnings():
                warnings.simplefilter("ignore")
                stages = len(multistage_regular_rechunking_plan(tuple(shape), tuple(src), tuple(tgt), item, min(max_mem // 20, item * math.prod(shape)), max_mem))
        except Exception:
            stages = 0
        if stages >= 2 or (attempt >= 3 and rng.random() < 0.1):
            break
    p = {"chunks": tgt}
    r = rng.random()
    if r < 0.7:
        p["allow_irregular"] = False
    elif r < 0.85:
        p["allow_irregular"] = True
    recipe = {"nodes": [{"in": [], "op": "leaf", "p": {"chunks": src, "dtype": dt, "seed": rng.getrandbits(40), "shape": shape, "src": "from_array"}},
                        {"in": [0], "op": "rechunk", "p": p}], "outputs": [1]}
    # the planner works with a fifth of the budget
    cfg = {"executor": "seq", "optimize": False, "spec": {"allowed_mem": 5 * max_mem + 4}}
    return recipe, cfg


def run_shard(spec, workdir):
    import random
    import shutil

    from checks import c11

    res = _rc.run_cases(spec, workdir, prop=PROPERTY, judge=judge, extra_counters=EXTRA, choose_cfgs=choose_cfgs,
                        per_run=per_run, nontrivial=nontrivial, monitors=("block", "trace"), gen_kw=GEN_KW)
    # third workload: regular-grid rechunks under budgets small enough to need intermediate stages
    rng = random.Random(spec["seed"] + 29)
    for k in range(spec.get("mstage", 40)):
        recipe, cfg = mstage_case(rng)
        np_vals = gen.np_eval(recipe)
        wd = os.path.join(workdir, f"m{k}")
        rec = runner.run_recipe(recipe, cfg, wd, monitors=("block", "trace"), **per_run(recipe, cfg))
        res["evaluations"] += 1
        res["counters"]["runs"] += 1
        _rc.bump(res["hist"]["config"], "mstage")
        if rec["phase"] == "skipped":
            shutil.rmtree(wd, ignore_errors=True)
            continue
        if rec["exc"] is not None:
            res["counters"]["raised"] += 1
            _rc.bump(res["hist"]["exceptions"], f"{rec['phase']}:{rec['exc']['type']}")
        else:
            res["counters"]["completed"] += 1
            nst = rec["plan"]["op_names"].count("rechunk")  # copy operations (one or two per stage)
            _rc.bump(res["hist"]["ops"], f"rechunk-copies:{nst}")
            if nst >= 3:
                res["counters"]["multi_stage_rechunks"] += 1
        viols = judge(recipe, np_vals, cfg, rec, res, wd) or []
        for v in viols:
            v.setdefault("property", PROPERTY)
            v.setdefault("case", {"recipe": recipe, "cfg": cfg})
        res["violations"].extend(viols)
        if nontrivial(recipe, np_vals, cfg, rec):
            res["nontrivial"].append(gen.rhash([recipe, cfg]))
        shutil.rmtree(wd, ignore_errors=True)
    # second workload: store / to_zarr into user-supplied targets (existing arrays of any chunking, sharded, regions)
    rng = random.Random(spec["seed"] + 17)
    scratch = c11._rc.new_result(c11.EXTRA)
    for k in range(spec.get("stores", 60)):
        c = c11.draw_call(rng)
        c["executor"] = "seq"
        if rng.random() < 0.7 and c["target"] in ("path", "group"):
            c["target"] = rng.choice(["existing_coarser", "existing_finer", "existing_unrelated", "sharded", "existing_equal"])
            c = c11.complete_target_geometry(c, rng)
        wd = os.path.join(workdir, f"s{k}")
        _, obs = c11.run_call(c, wd, scratch)
        shutil.rmtree(wd, ignore_errors=True)
        res["evaluations"] += 1
        res["counters"]["store_calls"] += 1
        if obs is None:
            continue
        viols = judge_store_targets(c, obs, res)
        for v in viols:
            v["property"] = PROPERTY
            v["case"] = {"store_call": c}
        res["violations"].extend(viols)
        res["nontrivial"].append(gen.rhash(["store", c]))
    return res


def replay(rep, workdir):
    if "store_call" in rep["case"]:
        from checks import c11

        res = _rc.new_result(EXTRA)
        c = rep["case"]["store_call"]
        _, obs = c11.run_call(c, os.path.join(workdir, "replay"), c11._rc.new_result(c11.EXTRA))
        res["evaluations"] = 1
        if obs is not None:
            for v in judge_store_targets(c, obs, res):
                v["property"] = PROPERTY
                v["case"] = rep["case"]
                res["violations"].append(v)
        return res
    return _rc.replay_case(rep, workdir, prop=PROPERTY, judge=judge, extra_counters=EXTRA, per_run=per_run,
                           monitors=("block", "trace"))


def finalize(tier, merged):
    c = merged["counters"]
    return {
        "rule": RULE,
        "floors": [
            ("stored-chunk writes attributed to tasks", c.get("chunk_sets", 0), 15000 if tier == "quick" else 75000),
            ("produced arrays whose grid coverage was checked", c.get("arrays_checked", 0), 2500 if tier == "quick" else 12500),
            ("direct rechunks planned with >= 3 copy operations (two or more stages)", c.get("multi_stage_rechunks", 0), 60 if tier == "quick" else 200),
            ("block writes into user-supplied store targets observed", c.get("target_block_writes", 0), 1500 if tier == "quick" else 7500),
        ],
        "assumptions": ASSUMPTIONS,
    }
