"""C07 - executors never let a task read data its producers have not finished writing.

Monitor: the store-level trace (call time before invoking, return time after the reply, one
monotonic clock) under the *real* executors with seeded write latency injected at the store
coroutine. Oracle: happens-before over the timestamps, for arrays produced by the computation
(their zarr.json was written during it):
  (1) no data-chunk get of key K is called before the first set(K) of this computation returned;
  (2) no data-chunk get misses on a key this computation sets at any time;
  (3) no (consumer) get on a produced array A is called before the first set of every key of A
      returned (an operation starts only after its producers finished);
  (4) no data get/set on a produced array before every produced array's zarr.json was written.
A writer task's own incidental read of the chunk it is about to write (Zarr's partial-chunk path)
is counted, not judged.
"""
from __future__ import annotations

import hashlib
import os
import random
import shutil

import numpy as np

from checks import _rc
from vlib import advexec, gen, runner, storetrace

PROPERTY = "C07"
LEVEL = "exploration"
TIMEOUT = {"quick": 1500, "thorough": 7200}
RULE = (
    "recipes from vlib.gen.Gen (independent branches, diamonds, multi-output ops, chains with unequal task counts, "
    "rechunk stages; mostly unoptimised so that operations communicate through storage) x executors {single-threaded, "
    "threads, processes} x compute_arrays_in_parallel {off,on} x batch_size {None,1,3} x max_workers {1,2,4,16} x seeded "
    "write latency (0/1/5/20 ms per chunk key). An evaluation = one run; non-trivial = completed run in which at least "
    "one produced array was read back by a later task; distinct = distinct interleaving (hash of the store event order). "
    "Plus, per shard, 'wide' plans: chains of 2-3 unfused elementwise operations over 1050-1500 one-element chunks on the "
    "threads executor (8/16/32 workers, batch_size None/1200/1500) with a few slow writes (50/200 ms), so that more tasks "
    "are in flight at once than any bound a scheduler might put on the futures it tracks"
)
ASSUMPTIONS = [
    "timestamps come from time.monotonic() (CLOCK_MONOTONIC), comparable across worker processes on Linux",
    "only interleavings actually produced under the injected latency are judged (bounded restatement of 'all interleavings')",
    "executors other than the three local ones are not installed",
]
NSHARDS = {"quick": 16, "thorough": 16}
PER_SHARD = {"quick": 28, "thorough": 170}
SITE = os.path.join(os.path.dirname(os.path.dirname(os.path.abspath(__file__))), "vlib", "site")


def shards(tier, seed):
    return [
        {"n": PER_SHARD[tier], "maxdim": 8 if tier == "quick" else 11, "depth": 5 if tier == "quick" else 7,
         "procs": 1 if tier == "quick" else 10, "wide": 1 if tier == "quick" else 2, "watchdog_s": TIMEOUT[tier] - 30}
        for _ in range(NSHARDS[tier])
    ]


def draw_cfg(rng, allow_procs):
    r = rng.random()
    ckw = {}
    if rng.random() < 0.6:
        ckw["compute_arrays_in_parallel"] = True
    bs = rng.choice([None, None, 1, 3])
    if bs is not None:
        ckw["batch_size"] = bs
    opt = rng.random() < 0.45
    if r < 0.08:
        return {"executor": "single-threaded", "optimize": opt}
    if r < 0.16 and allow_procs:
        return {"executor": "processes", "optimize": opt, "executor_opts": {"max_workers": rng.choice([2, 4])}, "compute_kw": ckw}
    return {"executor": "threads", "optimize": opt, "executor_opts": {"max_workers": rng.choice([1, 2, 4, 4, 16])}, "compute_kw": ckw}


ORDER_FINDINGS = []
ORDER_STATS = {"generation_lists_checked": 0, "node_orders_checked": 0}
_order_hooked = False


def install_order_contract():
    """Invariant at the scheduler's own hook: the node order / generations handed to the executors
    must respect every dependency of the DAG (an operation appears strictly after every operation
    producing one of its inputs). Rebinds the names the executors imported."""
    global _order_hooked
    if _order_hooked:
        return
    import networkx as nx

    import cubed.runtime.asyncio as rasync
    import cubed.runtime.executors.local as rlocal
    import cubed.runtime.pipeline as rpipe

    def op_ancestors(dag, n, live):
        return {a for a in nx.ancestors(dag, n) if a in live}

    def wrap_generations(orig):
        def visit_node_generations(dag):
            gens = list(orig(dag))
            ORDER_STATS["generation_lists_checked"] += 1
            pos = {}
            for g, gen in enumerate(gens):
                for name, _ in gen:
                    pos[name] = g
            for name, g in pos.items():
                for a in op_ancestors(dag, name, pos):
                    if pos[a] >= g:
                        ORDER_FINDINGS.append(f"operation {name} is in generation {g} but its producer {a} is in generation {pos[a]}")
            return iter(gens)

        return visit_node_generations

    def wrap_nodes(orig):
        def visit_nodes(dag):
            order = list(orig(dag))
            ORDER_STATS["node_orders_checked"] += 1
            pos = {name: k for k, (name, _) in enumerate(order)}
            for name, k in pos.items():
                for a in op_ancestors(dag, name, pos):
                    if pos[a] >= k:
                        ORDER_FINDINGS.append(f"operation {name} is visited at position {k} but its producer {a} at {pos[a]}")
            return iter(order)

        return visit_nodes

    wg = wrap_generations(rpipe.visit_node_generations)
    wn = wrap_nodes(rpipe.visit_nodes)
    for mod in (rasync, rlocal, rpipe):
        if hasattr(mod, "visit_node_generations"):
            mod.visit_node_generations = wg
        if hasattr(mod, "visit_nodes"):
            mod.visit_nodes = wn
    _order_hooked = True


def analyse(events, res, facts):
    """-> list of violations; updates counters."""
    out = []
    ck = storetrace.classify_key
    t_meta = None
    produced = set()
    for e in events:
        if e["op"] in ("set", "set_if_not_exists") and "err" not in e:
            k, arr, what = ck(e["key"])
            if k == "meta" and what == "zarr.json":
                produced.add((e["root"], arr))
                t_meta = max(t_meta or 0.0, e["tr"])
    first_set = {}  # (root, arr, coords) -> tr of first set
    setters = {}  # (root, arr) -> set of tasks
    for e, arr, coords in storetrace.data_events(events, op=("set", "set_if_not_exists")):
        if "err" in e or (e["root"], arr) not in produced:
            continue
        key = (e["root"], arr, coords)
        if key not in first_set or e["tr"] < first_set[key]:
            first_set[key] = e["tr"]
        setters.setdefault((e["root"], arr), set()).add(e.get("task"))
    ready = {}
    for (root, arr, coords), t in first_set.items():
        ready[(root, arr)] = max(ready.get((root, arr), 0.0), t)
    consumed = set()
    for e, arr, coords in storetrace.data_events(events, op=("get",)):
        a = (e["root"], arr)
        if a not in produced or "err" in e:
            continue
        if e.get("task") is not None and e.get("task") in setters.get(a, ()):  # writer's own read-modify-write
            res["counters"]["writer_own_reads"] += 1
            continue
        res["counters"]["reads_checked"] += 1
        consumed.add(a)
        key = (e["root"], arr, coords)

        def V(kind, msg):
            out.append({"kind": kind, "msg": msg, "facts": dict(facts, key=e["key"], task=str(e.get("task")))})

        if key in first_set:
            if e["tc"] < first_set[key]:
                V("read-before-write", f"task {e.get('task')} read chunk {e['key']} {1000 * (first_set[key] - e['tc']):.1f} ms before its first write returned")
            elif e.get("hit") is False:
                V("read-miss", f"task {e.get('task')} read chunk {e['key']} after its write returned and still missed")
        if e.get("hit") is False and key in first_set and e["tc"] < first_set[key]:
            V("read-fell-back-to-fill-value", f"task {e.get('task')} read chunk {e['key']} which was not there yet (miss => fill value)")
        if a in ready and e["tc"] < ready[a] and not (key in first_set and e["tc"] < first_set[key]):
            V("operation-started-before-producer-finished", f"task {e.get('task')} read array {arr} {1000 * (ready[a] - e['tc']):.1f} ms before its producer had written all chunks")
        if t_meta is not None and e["tc"] < t_meta:
            V("data-access-before-array-creation", f"task {e.get('task')} read {e['key']} before all arrays were created")
    if t_meta is not None:
        for e, arr, coords in storetrace.data_events(events, op=("set", "set_if_not_exists")):
            if (e["root"], arr) in produced and e["tc"] < t_meta:
                out.append({"kind": "data-access-before-array-creation", "msg": f"task {e.get('task')} wrote {e['key']} before all arrays were created",
                            "facts": dict(facts, key=e["key"], task=str(e.get("task")))})
    # statistics: overlap of task intervals, interleaving hash
    iv = {}
    for e in events:
        t = e.get("task")
        if t is None:
            continue
        t = tuple(t) if isinstance(t, list) else t
        a, b = iv.get(t, (e["tc"], e["tr"]))
        iv[t] = (min(a, e["tc"]), max(b, e["tr"]))
    pts = sorted([(a, 1) for a, b in iv.values()] + [(b, -1) for a, b in iv.values()])
    cur = mx = 0
    for _, d in pts:
        cur += d
        mx = max(mx, cur)
    order = hashlib.blake2b("|".join(f"{e['op']}:{e['key']}" for e in events).encode(), digest_size=8).hexdigest()
    return out, mx, order, len(consumed)


def one_run(recipe, cfg, workdir, seed, res, max_tasks=150, delays=None):
    import cubed

    storetrace.install()
    install_order_contract()
    del ORDER_FINDINGS[:]
    os.makedirs(workdir, exist_ok=True)
    spec = runner.make_spec(workdir)
    env = gen.BuildEnv(spec, workdir)
    try:
        vals = gen.cu_build(recipe, env)
        outs = [vals[i] for i in recipe["outputs"]]
        fp = cubed.plan(*outs, optimize_graph=cfg["optimize"])
    except Exception:
        return None
    if fp.num_tasks > max_tasks:
        return None
    inner = runner.make_executor(cfg["executor"], cfg.get("executor_opts"))
    ex = advexec.Wrap(inner)
    sink = None
    saved = {}
    if cfg["executor"] == "processes":
        sink = os.path.join(workdir, "worker-trace.jsonl")
        newenv = {
            "VERIF_TRACE_FILE": sink, "VERIF_TRACE_PARENT": str(os.getpid()), "VERIF_INJECT": f"delay:{seed}",
            "PYTHONPATH": SITE + os.pathsep + os.environ.get("PYTHONPATH", ""),
        }
        for k, v in newenv.items():
            saved[k] = os.environ.get(k)
            os.environ[k] = v
    storetrace.TRACE.start(injector=storetrace.make_delay_injector(seed, **({"choices": delays} if delays else {})), digest=False)
    exc = None
    try:
        cubed.compute(*outs, executor=ex, optimize_graph=cfg["optimize"], **cfg.get("compute_kw", {}))
    except Exception as e:
        exc = runner.exc_info(e)
    events = storetrace.TRACE.stop()
    for k, v in saved.items():
        if v is None:
            os.environ.pop(k, None)
        else:
            os.environ[k] = v
    if sink:
        wev = storetrace.read_sink(sink)
        res["counters"]["worker_process_events"] += len(wev)
        events = sorted(events + wev, key=lambda e: e["tc"])
        for e in events:
            if isinstance(e.get("task"), list):
                e["task"] = (e["task"][0], tuple(e["task"][1]) if isinstance(e["task"][1], list) else e["task"][1])
    return events, exc


EXTRA = ("wide_runs", "reads_checked", "writer_own_reads", "runs_with_consumer_reads", "runs_with_overlap", "worker_process_events",
         "declined", "store_events")
GEN_KW = {"allow_zero": False, "weights": {"binary": 16, "multi": 6, "rechunk": 7, "reduce": 12, "concat": 7, "linalg": 5, "combo": 14}}


def wide_case(rng):
    n = rng.randint(1050, 1500)
    if rng.random() < 0.5:
        shape, chunks = [n], [1]
    else:
        a = rng.randint(33, 45)
        shape, chunks = [a, n // a + 1], [1, 1]
    nodes = [{"in": [], "op": "leaf", "p": {"chunks": chunks, "dtype": "int64", "seed": rng.getrandbits(40), "shape": shape, "src": "from_array"}}]
    for op in rng.sample(["negative", "square", "abs", "positive"], rng.choice([2, 3])):
        nodes.append({"in": [len(nodes) - 1], "op": op, "p": {}})
    cfg = {"executor": "threads", "optimize": False, "executor_opts": {"max_workers": rng.choice([8, 16, 32])},
           "compute_kw": {"compute_arrays_in_parallel": rng.random() < 0.5}}
    bs = rng.choice([None, None, 1200, 1500])
    if bs is not None:
        cfg["compute_kw"]["batch_size"] = bs
    # most writes immediate, a few slow ones: the tail of an operation is still writing when its tracked part is done
    delays = (0.0,) * 14 + (0.05, 0.2)
    return {"nodes": nodes, "outputs": [len(nodes) - 1]}, cfg, delays


def run_shard(spec, workdir):
    rng = random.Random(spec["seed"])
    res = _rc.new_result(EXTRA)
    res["sets"]["interleavings"] = []
    procs_left = spec.get("procs", 1)
    mxo = 0
    for k in range(spec["n"]):
        g = gen.Gen(rng.getrandbits(48), maxdim=spec["maxdim"], depth=spec["depth"], **GEN_KW)
        g.maxblocks = 24
        recipe, np_vals = g.generate()
        # several requested arrays => independent branches
        arrs = [i for i, v in np_vals.items() if isinstance(v, np.ndarray) and recipe["nodes"][i]["op"] not in ("leaf", "pick")]
        for extra in rng.sample(arrs, min(len(arrs), rng.choice([0, 1, 2]))):
            if extra not in recipe["outputs"]:
                recipe["outputs"].append(extra)
        res["counters"]["recipes"] += 1
        for o in gen.recipe_ops(recipe):
            _rc.bump(res["hist"]["ops"], o)
        for rep in range(2):
            cfg = draw_cfg(rng, procs_left > 0)
            if procs_left > 0 and rep == 1 and res["counters"]["worker_process_events"] == 0:
                cfg = {"executor": "processes", "optimize": False, "executor_opts": {"max_workers": 2},
                       "compute_kw": {"compute_arrays_in_parallel": rng.random() < 0.5}}
            if cfg["executor"] == "processes":
                procs_left -= 1
            seed = rng.getrandbits(20)
            wd = os.path.join(workdir, f"r{k}_{rep}")
            r = one_run(recipe, cfg, wd, seed, res)
            shutil.rmtree(wd, ignore_errors=True)
            if r is None:
                res["counters"]["declined"] += 1
                break
            events, exc = r
            res["evaluations"] += 1
            res["counters"]["runs"] += 1
            res["counters"]["store_events"] += len(events)
            _rc.bump(res["hist"]["config"], f"{cfg['executor']}/{'opt' if cfg['optimize'] else 'noopt'}/par={bool(cfg.get('compute_kw', {}).get('compute_arrays_in_parallel'))}")
            facts = {"config": cfg, "latency_seed": seed, "ops": gen.recipe_ops(recipe), "run_exception": exc}
            viols, overlap, order, consumed = analyse(events, res, facts)
            for f in ORDER_FINDINGS[:2]:
                viols.append({"kind": "schedule-order-violates-dependency", "msg": f, "facts": dict(facts)})
            mxo = max(mxo, overlap)
            if overlap >= 2:
                res["counters"]["runs_with_overlap"] += 1
            if consumed:
                res["counters"]["runs_with_consumer_reads"] += 1
                if exc is None:
                    res["nontrivial"].append(order)
            res["sets"]["interleavings"].append(order)
            for v in viols[:3]:
                v["property"] = PROPERTY
                v["case"] = {"recipe": recipe, "cfg": cfg, "latency_seed": seed}
                res["violations"].append(v)
            if exc is not None:
                _rc.bump(res["hist"]["exceptions"], exc["type"])
        if not res["samples"] and spec.get("shard", 0) == 0:
            res["samples"].append({"recipe": recipe, "config": cfg})
    # ---- wide operations: more tasks in flight at once than any bound the scheduler might put on the
    # set of futures it waits on (each op of these plans has 1050-1500 one-chunk tasks)
    for k in range(spec.get("wide", 1)):
        recipe, cfg, delays = wide_case(rng)
        seed = rng.getrandbits(20)
        wd = os.path.join(workdir, f"w{k}")
        r = one_run(recipe, cfg, wd, seed, res, max_tasks=10**5, delays=delays)
        shutil.rmtree(wd, ignore_errors=True)
        if r is None:
            res["counters"]["declined"] += 1
            continue
        events, exc = r
        res["evaluations"] += 1
        res["counters"]["runs"] += 1
        res["counters"]["wide_runs"] += 1
        res["counters"]["store_events"] += len(events)
        _rc.bump(res["hist"]["config"], f"wide:{cfg['executor']}/batch={cfg.get('compute_kw', {}).get('batch_size')}")
        facts = {"config": cfg, "latency_seed": seed, "ops": gen.recipe_ops(recipe), "run_exception": exc, "wide": True}
        viols, overlap, order, consumed = analyse(events, res, facts)
        for f in ORDER_FINDINGS[:2]:
            viols.append({"kind": "schedule-order-violates-dependency", "msg": f, "facts": dict(facts)})
        mxo = max(mxo, overlap)
        if consumed and exc is None:
            res["nontrivial"].append(order)
        res["sets"]["interleavings"].append(order)
        if exc is not None:
            _rc.bump(res["hist"]["exceptions"], exc["type"])
            viols.append({"kind": "wide-run-failed", "msg": f"a plan of elementwise operations over {recipe['nodes'][0]['p']['shape']} one-element chunks raised {exc['type']}: {exc['msg'][:160]}", "facts": dict(facts)})
        for v in viols[:3]:
            v["property"] = PROPERTY
            v["case"] = {"recipe": recipe, "cfg": cfg, "latency_seed": seed, "max_tasks": 10**5, "delays": list(delays)}
            res["violations"].append(v)
    res["maxes"]["max_overlapping_tasks"] = mxo
    res["counters"]["generation_lists_checked"] = ORDER_STATS["generation_lists_checked"]
    res["counters"]["node_orders_checked"] = ORDER_STATS["node_orders_checked"]
    return res


def replay(rep, workdir):
    res = _rc.new_result(EXTRA)
    case = rep["case"]
    n = 0
    for i in range(6):  # the interleaving is not fully controlled: repeat the run a few times
        r = one_run(case["recipe"], case["cfg"], os.path.join(workdir, f"replay{i}"), case["latency_seed"] + i, res,
                    max_tasks=case.get("max_tasks", 150), delays=tuple(case["delays"]) if case.get("delays") else None)
        if r is None:
            continue
        events, exc = r
        viols, overlap, order, consumed = analyse(events, res, {"config": case["cfg"]})
        res["evaluations"] += 1
        for v in viols[:3]:
            v["property"] = PROPERTY
            v["case"] = case
            res["violations"].append(v)
    return res


def finalize(tier, merged):
    c = merged["counters"]
    return {
        "rule": RULE,
        "floors": [
            ("reads of produced arrays judged", c.get("reads_checked", 0), 15000 if tier == "quick" else 75000),
            ("runs in which >= 2 tasks overlapped in time", c.get("runs_with_overlap", 0), 250 if tier == "quick" else 1250),
            ("distinct interleavings observed", len(merged["sets"].get("interleavings", [])), 300 if tier == "quick" else 1500),
            ("store events observed inside worker processes", c.get("worker_process_events", 0), 100 if tier == "quick" else 1500),
            ("runs of plans whose operations have > 1000 tasks in flight at once", c.get("wide_runs", 0), 8 if tier == "quick" else 20),
            ("schedules (generation lists + node orders) checked against the DAG's dependencies", c.get("generation_lists_checked", 0) + c.get("node_orders_checked", 0), 500 if tier == "quick" else 2500),
        ],
        "assumptions": ASSUMPTIONS,
    }
