"""C15 - blockwise block addressing follows the index expression, before and after fusion.

Monitor: the real primitive (blockwise, general_blockwise, apply_blockwise, fuse, fuse_multiple,
can_fuse_multiple_primitive_ops) executed over *symbolic storage*: fake arrays whose blocks are
terms blk(name, coords); block functions return a term recording the function id, the argument
positions and whether each argument arrived as a block, a list or an iterator of blocks.
Oracles: (1) an independent reference of the index algebra (broadcast on 1-block dimensions, new
axes, contraction only over single-block dimensions - otherwise the primitive's explicit ValueError
is the one accepted outcome); (2) for fusion, the terms produced by running the unfused operations
one after another on the same symbolic storage.
"""
from __future__ import annotations

import itertools
import random

import numpy as np

from checks import _rc
from vlib.gen import rhash

PROPERTY = "C15"
LEVEL = "exploration"
TIMEOUT = {"quick": 1500, "thorough": 7200}
RULE = (
    "part 1: index expressions over <= 4 symbols and <= 3 arguments (each argument 0-3 indices, output 0-4 indices incl. new "
    "axes and contracted symbols), block counts per dimension in {1,2,3} with per-argument broadcasting (1 block where the "
    "symbol has more), 30% with one array in two argument positions under different index expressions: sampled in quick, all expressions with <= 3 symbols / <= 2 arguments enumerated in thorough; every "
    "output block checked. part 2: fusion DAGs up to depth 3 over key-function kinds {one-to-one (with coordinate permutation), "
    "several arguments (incl. the same array twice), list of blocks, stream (iterator) of blocks, alternating source, "
    "concatenating source (as a stream, and as one list with keys from several arrays), multi-output}, fused the way the optimiser does it (can_fuse_multiple_primitive_ops + fuse_multiple, "
    "and fuse for one-to-one chains), compared block by block with the unfused run. Non-trivial = some array has > 1 block "
    "(part 1) / at least one fusion happened (part 2); distinct by hash of the case"
)
ASSUMPTIONS = [
    "reference index algebra written from cubed/primitive/DESIGN.md and the Dask blockwise documentation, not from the code",
    "fusion legality is decided by cubed's own can_fuse_multiple_primitive_ops plus the optimiser's structural rules (single consumer, single-output predecessor)",
]
NSHARDS = {"quick": 16, "thorough": 16}
C = 2  # chunk size of every fake dimension


class T:
    """A symbolic block/term; np.asarray(T) is a 0-d object array holding it."""

    __slots__ = ("v",)

    def __init__(self, v):
        self.v = v

    def __repr__(self):
        return repr(self.v)

    def __eq__(self, o):
        return isinstance(o, T) and self.v == o.v

    def __hash__(self):
        return hash(repr(self.v))


def unwrap(x):
    if isinstance(x, np.ndarray) and x.dtype == object and x.ndim == 0:
        return x.item()
    return x


def describe_arg(a):
    """Records the container kind of an argument as delivered to a block function."""
    if isinstance(a, list):
        return ("list", tuple(describe_arg(x) for x in a))
    if isinstance(a, (T, np.ndarray)):
        u = unwrap(a)
        return u.v if isinstance(u, T) else ("raw", repr(u))
    if hasattr(a, "__next__") or hasattr(a, "__iter__"):
        return ("iter", tuple(describe_arg(x) for x in a))
    return ("raw", repr(a))


def make_func(fid, nout=1):
    if nout == 1:
        def f(*args, **kw):
            return T(("app", fid, tuple(describe_arg(a) for a in args)))

        return f

    def g(*args, **kw):
        d = tuple(describe_arg(a) for a in args)
        for k in range(nout):
            yield T(("app", fid, k, d))

    return g


def make_fake(name, numblocks):
    from cubed.storage.zarr import LazyZarrArray

    class Fake(LazyZarrArray):
        def __init__(self, name, numblocks):
            shape = tuple(n * C for n in numblocks)
            super().__init__(None, shape, np.dtype("float64"), (C,) * len(shape), path=name)
            self.name = name
            self.numblocks = tuple(numblocks)
            self.blocks = {}
            self.leaf = True
            self.writes = []

        def open(self):
            return self

        def create(self, mode=None):
            return self

        def _coords(self, sel):
            if not isinstance(sel, tuple):
                sel = (sel,)
            out = []
            for s, d in zip(sel, self.shape):
                a, b, st = s.indices(d)
                out.append(a // C)
            return tuple(out)

        def __getitem__(self, sel):
            c = self._coords(sel)
            if self.leaf:
                return T(("blk", self.name, c))
            return self.blocks.get(c, T(("MISSING", self.name, c)))

        def __setitem__(self, sel, value):
            c = self._coords(sel)
            v = unwrap(np.asarray(value)) if not isinstance(value, T) else value
            self.writes.append(c)
            self.blocks[c] = v

    return Fake(name, numblocks)


# ---------------------------------------------------------------------------------------------
# part 1: index notation


def reference_blockwise(out_ind, args, sym_blocks):
    """args: [(name, ind tuple, numblocks tuple)]. -> {out coords: tuple of (name, coords)} or 'ValueError'."""
    for name, ind, nb in args:
        for s, n in zip(ind, nb):
            if s not in out_ind and n > 1:
                return "ValueError"  # contraction over a dimension with several blocks is declined
    out = {}
    ranges = [range(sym_blocks[s]) for s in out_ind]
    for oc in itertools.product(*ranges):
        pos = dict(zip(out_ind, oc))
        row = []
        for name, ind, nb in args:
            coords = tuple((pos[s] if n > 1 else 0) if s in pos else 0 for s, n in zip(ind, nb))
            row.append(("blk", name, coords))
        out[oc] = tuple(row)
    return out


def run_blockwise_case(case):
    from cubed.primitive.blockwise import apply_blockwise, blockwise

    out_ind = tuple(case["out_ind"])
    sym_blocks = {int(k): v for k, v in case["sym_blocks"].items()}
    args = [(a["name"], tuple(a["ind"]), tuple(a["nb"])) for a in case["args"]]
    arg_syms = {s for _, ind, _ in args for s in ind}
    new_axes = {s: C * sym_blocks[s] for s in out_ind if s not in arg_syms}
    for s in new_axes:
        sym_blocks[s] = 1  # a new axis is a single block
        new_axes[s] = C
    fakes = {name: make_fake(name, nb) for name, ind, nb in args}
    out_nb = tuple(sym_blocks[s] for s in out_ind)
    target = make_fake("out", out_nb)
    target.leaf = False
    flat = []
    for name, ind, nb in args:
        flat += [fakes[name], ind]
    want = reference_blockwise(out_ind, args, sym_blocks)
    try:
        op = blockwise(
            make_func("f"), out_ind, *flat, allowed_mem=10**9, reserved_mem=0, target_store=target, target_name="out",
            shape=target.shape, dtype=np.dtype("float64"), chunks=(C,) * len(out_nb), new_axes=new_axes or None,
            in_names=[a[0] for a in args],
        )
    except ValueError as e:
        if want == "ValueError" and "multiple chunks in dropped axis" in str(e):
            return None, "declined"
        return f"primitive raised ValueError ({str(e)[:100]}) but the reference expects {('a result' if want != 'ValueError' else 'that error')}", None
    if want == "ValueError":
        return "contraction over a multi-block dimension was accepted", None
    tasks = [tuple(m) for m in op.pipeline.mappable]
    if sorted(tasks) != sorted(want):
        return f"task list {sorted(tasks)[:6]} != output block grid {sorted(want)[:6]}", None
    if op.num_tasks != len(want):
        return f"num_tasks {op.num_tasks} != {len(want)} output blocks", None
    for oc in tasks:
        apply_blockwise(list(oc), config=op.pipeline.config)
    for oc, row in want.items():
        got = target.blocks.get(oc)
        exp = T(("app", "f", row))
        if got != exp:
            return f"output block {oc}: got {got} expected {exp}", None
    return None, len(want)


def draw_blockwise_case(rng):
    nsym = rng.randint(1, 4)
    syms = list(range(nsym))
    sym_blocks = {s: rng.choice([1, 2, 2, 3]) for s in syms}
    nargs = rng.randint(1, 3)
    args = []
    for k in range(nargs):
        ind = rng.sample(syms, rng.randint(0 if nargs > 1 else 1, min(3, nsym)))
        nb = [sym_blocks[s] if rng.random() < 0.75 else 1 for s in ind]
        args.append({"name": f"a{k}", "ind": ind, "nb": nb})
    if not any(a["ind"] for a in args):
        args[0]["ind"] = [0]
        args[0]["nb"] = [sym_blocks[0]]
    cands = [a for a in args if len(a["ind"]) >= 2]
    if cands and rng.random() < 0.3:
        # the same array in two argument positions with different index expressions (x_ij, x_ji / x_ij, x_jk)
        a = rng.choice(cands)
        b = rng.choice([2, 2, 3])
        ind2 = list(a["ind"])
        while ind2 == a["ind"]:
            rng.shuffle(ind2)
        if rng.random() < 0.4:
            other = [t for t in syms if t not in ind2]
            ind2[rng.randrange(len(ind2))] = rng.choice(other) if other else ind2[0]
            if len(set(ind2)) < len(ind2):
                ind2 = list(reversed(a["ind"]))
        a["nb"] = [b] * len(a["ind"])
        rep = {"name": a["name"], "ind": ind2, "nb": [b] * len(ind2)}
        if len(args) >= 3:
            args[rng.choice([k for k, x in enumerate(args) if x is not a])] = rep
        else:
            args.append(rep)
        involved = set(a["ind"]) | set(ind2)
        for x in args:
            x["nb"] = [(b if n > 1 else 1) if t in involved and x["name"] != a["name"] else n for t, n in zip(x["ind"], x["nb"])]
    used = sorted({s for a in args for s in a["ind"]})
    # the block count of a symbol is the max over the arguments that carry it
    for s in used:
        sym_blocks[s] = max([n for a in args for t, n in zip(a["ind"], a["nb"]) if t == s])
    out_ind = [s for s in used if rng.random() < 0.8]
    rng.shuffle(out_ind)
    if rng.random() < 0.2:
        new = nsym
        out_ind.insert(rng.randint(0, len(out_ind)), new)
        sym_blocks[new] = 1
    return {"part": 1, "out_ind": out_ind, "args": args, "sym_blocks": {str(k): v for k, v in sym_blocks.items()}}


def enumerate_blockwise_cases():
    """All expressions with <= 3 symbols and <= 2 arguments (each argument 1-2 indices), block counts {1,2,3}."""
    for nsym in (1, 2, 3):
        syms = list(range(nsym))
        inds = [p for r in (1, 2) for p in itertools.permutations(syms, r)]
        for nargs in (1, 2):
            for chosen in itertools.product(inds, repeat=nargs):
                used = sorted({s for ind in chosen for s in ind})
                for blocks in itertools.product([1, 2, 3], repeat=len(used)):
                    sb = dict(zip(used, blocks))
                    for outmask in itertools.product([0, 1], repeat=len(used)):
                        out_ind = [s for s, m in zip(used, outmask) if m]
                        for bmask in itertools.product([0, 1], repeat=sum(len(i) for i in chosen)):
                            it = iter(bmask)
                            args = []
                            for k, ind in enumerate(chosen):
                                nb = [1 if next(it) else sb[s] for s in ind]
                                args.append({"name": f"a{k}", "ind": list(ind), "nb": nb})
                            sbb = {s: max([n for a in args for t, n in zip(a["ind"], a["nb"]) if t == s]) for s in used}
                            yield {"part": 1, "out_ind": out_ind, "args": args, "sym_blocks": {str(k): v for k, v in sbb.items()}}
                            if nargs == 2 and len(chosen[0]) == len(chosen[1]) == 2 and chosen[0] != chosen[1] and len(set(sum(([n for n in a["nb"]] for a in args), []))) == 1:
                                # the same array under both index expressions (needs equal block counts on all its axes)
                                same = [dict(a, name="a0") for a in args]
                                yield {"part": 1, "out_ind": out_ind, "args": same, "sym_blocks": {str(k): v for k, v in sbb.items()}}


# ---------------------------------------------------------------------------------------------
# part 2: fusion


KINDS = ["one", "one", "multi_arg", "same_twice", "list", "iter", "alternating", "concat", "concat_list", "multi_output"]


def build_op(node, arrays, nb):
    """node: {"id", "kind", "ins": [array names], "perm": bool}. Returns (PrimitiveOperation, [target fakes])."""
    from cubed.primitive.blockwise import ChunkKey, FunctionArgs, general_blockwise

    kind, ins, nid = node["kind"], node["ins"], node["id"]
    srcs = [arrays[n] for n in ins]
    in_nb = srcs[0].numblocks
    out_nb = in_nb
    nout = 1
    names = list(ins)

    if kind == "one":
        perm = node.get("perm", False)
        out_nb = in_nb[::-1] if perm else in_nb

        def kf(out_key, _n=names[0], _p=perm):
            c = out_key.coords[::-1] if _p else out_key.coords
            return FunctionArgs(ChunkKey(_n, c), output_name=out_key.name)

        nib = (1,)
    elif kind in ("multi_arg", "same_twice"):
        def kf(out_key, _ns=tuple(names)):
            return FunctionArgs(*[ChunkKey(n, out_key.coords) for n in _ns], output_name=out_key.name)

        nib = (1,) * len(set(names)) if False else (1,) * len(names)
    elif kind in ("list", "iter"):
        out_nb = (in_nb[0], 1)

        def kf(out_key, _n=names[0], _k=in_nb[1], _it=(kind == "iter")):
            keys = [ChunkKey(_n, (out_key.coords[0], j)) for j in range(_k)]
            return FunctionArgs(iter(keys) if _it else keys, output_name=out_key.name)

        nib = (in_nb[1],)
    elif kind == "alternating":
        # stack-like: a new leading block axis selects the source
        out_nb = (len(names),) + tuple(in_nb)

        def kf(out_key, _ns=tuple(names)):
            return FunctionArgs(ChunkKey(_ns[out_key.coords[0]], out_key.coords[1:]), output_name=out_key.name)

        nib = (1,) * len(names)
    elif kind in ("concat", "concat_list"):
        # concat-like: one output column block streams the whole row of blocks of every source; as a stream, or
        # (concat_list) as one list whose keys come from several arrays
        out_nb = (in_nb[0], 1)

        def kf(out_key, _ns=tuple(names), _k=in_nb[1], _it=(kind == "concat")):
            keys = [ChunkKey(n, (out_key.coords[0], j)) for n in _ns for j in range(_k)]
            return FunctionArgs(iter(keys) if _it else keys, output_name=out_key.name)

        nib = (in_nb[1],) * len(names)
    elif kind == "multi_output":
        nout = 2

        def kf(out_key, _n=names[0]):
            return FunctionArgs(ChunkKey(_n, out_key.coords), output_name=out_key.name)

        nib = (1,)
    else:
        raise KeyError(kind)
    tnames = [f"t{nid}" if nout == 1 else f"t{nid}_{k}" for k in range(nout)]
    targets = [make_fake(t, out_nb) for t in tnames]
    for t in targets:
        t.leaf = False
    shape = targets[0].shape
    # general_blockwise wants one array per distinct name
    uniq = []
    for n in names:
        if n not in uniq:
            uniq.append(n)
    if kind in ("multi_arg", "same_twice", "alternating", "concat", "concat_list"):
        nib = tuple(nib[: len(uniq)]) if len(nib) >= len(uniq) else nib
    op = general_blockwise(
        make_func(f"f{nid}", nout), kf, *[arrays[n] for n in uniq], allowed_mem=10**9, reserved_mem=0,
        target_stores=targets, target_names=tnames, shapes=[shape] * nout, dtypes=[np.dtype("float64")] * nout,
        chunkss=[(C,) * len(out_nb)] * nout, in_names=uniq, num_input_blocks=tuple(nib[: len(uniq)]),
    )
    return op, targets


def draw_dag(rng):
    nb = (rng.choice([1, 2, 3]), rng.choice([1, 2, 3]))
    nleaves = rng.randint(1, 3)
    nodes = []
    avail = [(f"x{k}", nb, 0) for k in range(nleaves)]  # (array name, numblocks, depth)
    nops = rng.randint(2, 5)
    for i in range(nops):
        last = i == nops - 1
        kind = rng.choice(KINDS)
        if kind == "multi_output" and not last:
            kind = "one"
        # inputs must share a block grid
        base = rng.choice(avail[-3:]) if rng.random() < 0.7 else rng.choice(avail)
        same = [a for a in avail if a[1] == base[1]]
        if kind in ("one", "list", "iter", "multi_output"):
            ins = [base]
        elif kind == "same_twice":
            ins = [base, base] + ([rng.choice(same)] if rng.random() < 0.4 else [])
        else:
            ins = [base] + [rng.choice(same) for _ in range(rng.randint(1, 2))]
        if len(base[1]) != 2 and kind in ("list", "iter", "concat", "concat_list"):
            kind = "one" if len(ins) == 1 else "multi_arg"
        depth = 1 + max(a[2] for a in ins)
        if depth > 3:
            continue
        node = {"id": i, "kind": kind, "ins": [a[0] for a in ins], "perm": rng.random() < 0.3}
        if kind == "one" and len(base[1]) != 2:
            node["perm"] = rng.random() < 0.3
        nodes.append(node)
        in_nb = base[1]
        if kind == "one":
            out_nb = in_nb[::-1] if node["perm"] else in_nb
        elif kind in ("list", "iter", "concat", "concat_list"):
            out_nb = (in_nb[0], 1)
        elif kind == "alternating":
            out_nb = (len(ins),) + tuple(in_nb)
        else:
            out_nb = in_nb
        if kind != "multi_output":
            avail.append((f"t{i}", tuple(out_nb), depth))
    return {"part": 2, "nb": list(nb), "nleaves": nleaves, "nodes": nodes, "mtib": rng.choice([None, 10, 100])}


def run_dag(case, fused):
    """Executes the DAG unfused or fused; returns ({array name: {coords: term}} for sink arrays, #fusions)."""
    from cubed.primitive.blockwise import apply_blockwise, can_fuse_multiple_primitive_ops, fuse_multiple

    nb = tuple(case["nb"])
    arrays = {f"x{k}": make_fake(f"x{k}", nb) for k in range(case["nleaves"])}
    ops = {}
    producer = {}
    order = []
    for node in case["nodes"]:
        op, targets = build_op(node, arrays, nb)
        ops[node["id"]] = {"op": op, "targets": targets, "node": node}
        for t in targets:
            arrays[t.name] = t
            producer[t.name] = node["id"]
        order.append(node["id"])
    consumers = {}
    for node in case["nodes"]:
        for n in set(node["ins"]):
            consumers.setdefault(n, set()).add(node["id"])
    sinks = [t.name for i in order for t in ops[i]["targets"] if not consumers.get(t.name)]
    nfused = 0
    removed = set()
    if fused:
        for i in order:
            cur = ops[i]["op"]
            preds = []
            for src in cur.source_array_names:
                p = producer.get(src)
                ok = (
                    p is not None and p not in removed and len(ops[p]["targets"]) == 1
                    and consumers.get(src) == {i} and src not in sinks
                )
                preds.append(ops[p]["op"] if ok else None)
            if not any(p is not None for p in preds):
                continue
            if not can_fuse_multiple_primitive_ops(f"op{i}", cur, preds, max_total_num_input_blocks=case["mtib"]):
                continue
            new = fuse_multiple(cur, *preds)
            ops[i]["op"] = new
            nfused += 1
            for src, p in zip(cur.source_array_names, preds):
                if p is not None:
                    removed.add(producer[src])
            # consumers of the predecessors' sources now include i
            for src in new.source_array_names:
                consumers.setdefault(src, set()).add(i)
    for i in order:
        if i in removed:
            continue
        op = ops[i]["op"]
        for m in op.pipeline.mappable:
            apply_blockwise(list(m), config=op.pipeline.config)
    out = {s: dict(arrays[s].blocks) for s in sinks}
    grids = {s: arrays[s].numblocks for s in sinks}
    return out, grids, nfused


def run_fusion_case(case):
    try:
        ref, grids, _ = run_dag(case, fused=False)
    except ValueError:
        return None, "declined"
    got, _, nfused = run_dag(case, fused=True)
    for s, blocks in ref.items():
        want_coords = set(itertools.product(*[range(n) for n in grids[s]]))
        if set(blocks) != want_coords:
            return f"unfused run wrote blocks {sorted(blocks)} of {s}, grid is {sorted(want_coords)}", None
        for c, term in blocks.items():
            g = got.get(s, {}).get(c)
            if g != term:
                return f"array {s} block {c}: fused {g} != unfused {term} (fusions: {nfused})", None
    return None, nfused


# ---------------------------------------------------------------------------------------------


def shards(tier, seed):
    ns = NSHARDS[tier]
    return [{"index": i, "of": ns, "n1": 6000 if tier == "quick" else 40000, "n2": 2000 if tier == "quick" else 40000,
             "enumerate": tier == "thorough", "watchdog_s": TIMEOUT[tier] - 30} for i in range(ns)]


EXTRA = ("expressions_with_a_repeated_array", "index_expressions", "output_blocks_checked", "declined_contractions", "fusion_dags", "fusions_performed", "dags_with_fusion")


def judge_case(case, res):
    if case["part"] == 1:
        err, n = run_blockwise_case(case)
        res["evaluations"] += 1
        res["counters"]["index_expressions"] += 1
        if err:
            return [{"property": PROPERTY, "kind": "blockwise-addressing", "msg": f"{err} | {case}", "facts": {"part": 1}, "case": case}]
        names = [a["name"] for a in case["args"]]
        if len(set(names)) < len(names) and n != "declined":
            res["counters"]["expressions_with_a_repeated_array"] += 1
        if n == "declined":
            res["counters"]["declined_contractions"] += 1
        else:
            res["counters"]["output_blocks_checked"] += n
            if n > 1:
                res["nontrivial"].append(rhash(case))
        return []
    try:
        err, n = run_fusion_case(case)
    except Exception as e:
        return [{"property": PROPERTY, "kind": "fusion-crashed", "msg": f"{type(e).__name__}: {str(e)[:200]} | {case}", "facts": {"part": 2, "exc": type(e).__name__}, "case": case}]
    res["evaluations"] += 1
    res["counters"]["fusion_dags"] += 1
    if err:
        return [{"property": PROPERTY, "kind": "fusion-changed-blocks", "msg": f"{err} | {case}", "facts": {"part": 2}, "case": case}]
    if n != "declined" and n:
        res["counters"]["fusions_performed"] += n
        res["counters"]["dags_with_fusion"] += 1
        res["nontrivial"].append(rhash(case))
    for node in case["nodes"]:
        _rc.bump(res["hist"]["ops"], node["kind"])
    return []


def run_shard(spec, workdir):
    rng = random.Random(spec["seed"])
    res = _rc.new_result(EXTRA)
    if spec.get("enumerate"):
        for j, case in enumerate(enumerate_blockwise_cases()):
            if j % spec["of"] == spec["index"]:
                res["violations"].extend(judge_case(case, res))
    for _ in range(spec["n1"]):
        res["violations"].extend(judge_case(draw_blockwise_case(rng), res))
    for _ in range(spec["n2"]):
        res["violations"].extend(judge_case(draw_dag(rng), res))
    if spec["index"] == 0:
        res["samples"] = [draw_blockwise_case(random.Random(3)), draw_dag(random.Random(3))]
    return res


def replay(rep, workdir):
    res = _rc.new_result(EXTRA)
    res["violations"] = judge_case(rep["case"], res)
    return res


def finalize(tier, merged):
    c = merged["counters"]
    return {
        "rule": RULE,
        "floors": [
            ("index expressions run through the real primitive", c.get("index_expressions", 0), 30000 if tier == "quick" else 250000),
            ("output blocks compared with the reference algebra", c.get("output_blocks_checked", 0), 150000 if tier == "quick" else 1000000),
            ("expressions with one array in two argument positions under different index expressions", c.get("expressions_with_a_repeated_array", 0), 1500 if tier == "quick" else 10000),
            ("fusion DAGs in which at least one fusion happened", c.get("dags_with_fusion", 0), 8000 if tier == "quick" else 150000),
            ("distinct key-function kinds in fused DAGs", len(merged["hist"].get("ops", {})), 8),
        ],
        "assumptions": ASSUMPTIONS,
    }
