"""C19 - acceptance and results do not depend on how resources are configured.

Monitor: the same recipe is built and computed under a set of resource configurations; for each
the outcome (accepted or the type+phase of the refusal) and the values are recorded. Oracle:
pairwise agreement with the baseline variant (explicit Spec equal to the default) plus NumPy.
"""
from __future__ import annotations

import os
import random
import shutil
import warnings

import numpy as np

from checks import _rc
from vlib import gen, oracle, runner

PROPERTY = "C19"
LEVEL = "exploration"
TIMEOUT = {"quick": 1500, "thorough": 7200}
RULE = (
    "recipes from vlib.gen.Gen (every public operation of the table, and compositions) each built and computed under "
    "variants {global default config (spec=None), explicit Spec equal to the default, other work_dir, intermediate_store "
    "path, zarr_compressor None / explicit codec, reserved_mem 0, executor_name in the Spec, larger allowed_mem}; plus "
    "Specs with the same memory for array data and a different reserve (allowed_mem = D + R, reserved_mem = R, R in {0, 1kB, 10kB, 1MB, 100MB}) at budgets D where the plan is tight (largest projection of the unoptimised plan, of the optimised plan, their midpoint), on fusion-heavy recipes; memory-tight rechunks whose intermediate grid is rectilinear, computed with the executor named in the Spec being "
    "single-threaded (baseline) / threads / processes. An "
    "evaluation = one (recipe, variant) outcome compared with the baseline variant; non-trivial = the recipe has a "
    "multi-block leaf and both outcomes were compared; distinct by hash of (recipe, variant)"
)
ASSUMPTIONS = [
    "allowed memory is ample in every variant (2 GB or more for arrays of at most a few kB)",
    "values compared bit-exactly between variants (compressors are lossless, task functions identical)",
]
NSHARDS = {"quick": 16, "thorough": 16}
PER_SHARD = {"quick": 24, "thorough": 140}

VARIANTS = ["global_default", "explicit_default", "other_work_dir", "intermediate_store", "compressor_none",
            "compressor_explicit", "reserved_zero", "executor_in_spec", "larger_allowed_mem"]


def shards(tier, seed):
    return [{"n": PER_SHARD[tier], "maxdim": 8 if tier == "quick" else 11, "depth": 4 if tier == "quick" else 6,
             "tight": 3 if tier == "quick" else 12, "shifted": 10 if tier == "quick" else 60, "watchdog_s": TIMEOUT[tier] - 30} for _ in range(NSHARDS[tier])]


def spec_for(variant, wd, over=None):
    import cubed

    base = dict(work_dir=os.path.join(wd, "w"), allowed_mem="2GB", reserved_mem="100MB")
    base.update({k: v for k, v in (over or {}).items() if k != "data_mem"})
    if variant.startswith("shifted:"):
        # the same memory for array data, with a different reserve: allowed_mem = data + R, reserved_mem = R
        r = int(variant.split(":")[1])
        return cubed.Spec(**dict(base, allowed_mem=int(over["data_mem"]) + r, reserved_mem=r))
    if variant == "executor_threads":
        return cubed.Spec(**dict(base, executor_name="threads", executor_options={"max_workers": 3}))
    if variant == "executor_processes":
        return cubed.Spec(**dict(base, executor_name="processes", executor_options={"max_workers": 2}))
    if variant == "explicit_default":
        return cubed.Spec(**base)
    if variant == "other_work_dir":
        return cubed.Spec(**dict(base, work_dir=os.path.join(wd, "elsewhere", "deeper")))
    if variant == "intermediate_store":
        return cubed.Spec(**dict(base, intermediate_store=os.path.join(wd, "istore")))
    if variant == "compressor_none":
        return cubed.Spec(**dict(base, zarr_compressor=None))
    if variant == "compressor_explicit":
        return cubed.Spec(**dict(base, zarr_compressor={"name": "blosc", "configuration": {"cname": "lz4", "clevel": 2, "shuffle": "shuffle"}}))
    if variant == "reserved_zero":
        return cubed.Spec(**dict(base, reserved_mem=0))
    if variant == "executor_in_spec":
        return cubed.Spec(**dict(base, executor_name="single-threaded"))
    if variant == "larger_allowed_mem":
        return cubed.Spec(**dict(base, allowed_mem="3GB"))
    raise KeyError(variant)


def run_variant(recipe, variant, wd):
    """-> dict(phase, exc, results)"""
    import cubed

    os.makedirs(wd, exist_ok=True)
    out = {"phase": "build", "exc": None, "results": None}
    ctx = None
    try:
        if variant == "global_default":
            ctx = cubed.config.set({"spec.work_dir": os.path.join(wd, "w")})
            ctx.__enter__()
            spec = None
        else:
            spec = spec_for(variant, wd, recipe.get("spec_over"))
        env = gen.BuildEnv(spec, wd)
        with warnings.catch_warnings():
            warnings.simplefilter("ignore")
            vals = gen.cu_build(recipe, env)
            outs = [vals[i] for i in recipe["outputs"]]
            out["phase"] = "execute"
            kw = {} if variant.startswith("executor_") else {"executor": runner.make_executor("single-threaded")}
            res = cubed.compute(*outs, **kw)
        out["results"] = [np.asarray(r) for r in res]
        out["phase"] = "done"
    except Exception as e:
        out["exc"] = runner.exc_info(e)
    finally:
        if ctx is not None:
            ctx.__exit__(None, None, None)
    return out


def same(a, b):
    if a.shape != b.shape or a.dtype != b.dtype:
        return False
    return np.array_equal(a, b, equal_nan=a.dtype.kind in "fc")


def compare_outcomes(recipe, np_vals, variant, base, got):
    ops = gen.recipe_ops(recipe)
    facts = {"variant": variant, "ops": ops}
    if (base["exc"] is None) != (got["exc"] is None):
        e = got["exc"] or base["exc"]
        who = variant if got["exc"] else "explicit_default"
        op = None
        if e.get("node") is not None:
            op = recipe["nodes"][e["node"]]["op"]
        return [{"kind": "acceptance-differs",
                 "msg": f"variant {variant} {'raises' if got['exc'] else 'accepts'} while explicit_default {'raises' if base['exc'] else 'accepts'}: "
                        f"{who} -> {e['type']} ({e['msg'][:140]}) at {e['where']} (op {op})",
                 "facts": dict(facts, exc=e, op=op, raising_variant=who)}]
    if got["exc"] is not None:
        if base["exc"]["type"] != got["exc"]["type"]:
            return [{"kind": "refusal-type-differs", "msg": f"variant {variant}: {got['exc']['type']} vs explicit_default: {base['exc']['type']}",
                     "facts": dict(facts, exc=got["exc"], base_exc=base["exc"])}]
        return []
    out = []
    for k, (a, b) in enumerate(zip(base["results"], got["results"])):
        if not same(a, b):
            out.append({"kind": "values-differ-between-configurations", "msg": f"variant {variant}: requested array #{k} differs from explicit_default",
                        "facts": dict(facts, output=k)})
            break
    return out


def fusion_tree_recipe(rng):
    """One requested array: a tree of elementwise operations over 2-6 equally shaped leaves of mixed item sizes
    (what the optimiser fuses into a single operation reading all the leaves), now and then reduced at the end."""
    g = gen.Gen(rng.getrandbits(40), allow_zero=False)
    nd = rng.choice([1, 2, 2])
    shape = [rng.randint(4, 9) for _ in range(nd)]
    chunks = [rng.randint(2, d) for d in shape]
    nodes = []

    def leaf():
        n = g.new_leaf(shape=shape, dtype=rng.choice(["float64", "float64", "int64", "float32", "int8", "int32"]))
        n["p"]["chunks"] = list(chunks)
        n["p"]["neg"] = False
        nodes.append(n)
        return len(nodes) - 1

    def tree(depth):
        if depth == 0 or rng.random() < 0.25:
            i = leaf()
            if rng.random() < 0.4:
                nodes.append({"op": rng.choice(["negative", "square", "abs"]), "in": [i], "p": {}})
                i = len(nodes) - 1
            return i
        a, b = tree(depth - 1), tree(depth - 1)
        nodes.append({"op": rng.choice(["add", "multiply", "subtract", "maximum"]), "in": [a, b], "p": {}})
        return len(nodes) - 1

    root = tree(rng.choice([2, 2, 3]))
    if rng.random() < 0.25:
        nodes.append({"op": "sum", "in": [root], "p": {"axis": 0, "keepdims": False, "split_every": None}})
        root = len(nodes) - 1
    recipe = {"nodes": nodes, "outputs": [root]}
    try:
        with warnings.catch_warnings():
            warnings.simplefilter("ignore")
            vals = gen.np_eval(recipe)
    except Exception:
        return None, None
    return recipe, vals


def plan_budgets(recipe, wd):
    """Data-memory budgets at which the plan of this recipe is tight: the largest projected memory of the unoptimised
    plan, that of the default-optimised plan, and the midpoint (all with reserved_mem = 0)."""
    import cubed

    try:
        spec = cubed.Spec(work_dir=os.path.join(wd, "w"), allowed_mem="2GB", reserved_mem=0)
        env = gen.BuildEnv(spec, wd)
        with warnings.catch_warnings():
            warnings.simplefilter("ignore")
            vals = gen.cu_build(recipe, env)
            outs = [vals[i] for i in recipe["outputs"]]
            p0 = cubed.plan(*outs, optimize_graph=False).max_projected_mem
            p1 = cubed.plan(*outs, optimize_graph=True).max_projected_mem
    except Exception:
        return []
    finally:
        shutil.rmtree(wd, ignore_errors=True)
    if not p0 or p0 < 64:
        return []
    return sorted({int(p0), int(p1), int((p0 + p1) // 2), int(p0) + 8, int(max(p0, p1) * 2)})


def tight_rechunk_recipe(rng, wd):
    """A rechunk under a budget too small for copy chunks to span an axis, with source and target chunk sizes that do not
    nest: its intermediate array has a rectilinear (irregular) chunk grid. Candidates are screened by looking at the plan."""
    import math

    import cubed

    recipe = None
    irregular = False
    for attempt in range(10):
        shape = [rng.randint(20, 60), rng.randint(20, 60)]
        src = [rng.randint(3, 12), rng.randint(3, 12)]
        tgt = [rng.randint(3, 12), rng.randint(3, 12)]
        dt = rng.choice(["float64", "int32"])
        item = 8 if dt == "float64" else 4
        allowed = int(item * max(math.prod(src), math.prod(tgt)) * rng.choice([5.5, 6, 8, 12])) + 8
        recipe = {"nodes": [{"in": [], "op": "leaf", "p": {"chunks": src, "dtype": dt, "seed": rng.getrandbits(40), "shape": shape, "src": "from_array"}},
                            {"in": [0], "op": "rechunk", "p": {"chunks": tgt}}], "outputs": [1],
                  "spec_over": {"allowed_mem": allowed, "reserved_mem": 0}}
        try:
            with warnings.catch_warnings():
                warnings.simplefilter("ignore")
                vals = gen.cu_build(recipe, gen.BuildEnv(spec_for("explicit_default", os.path.join(wd, "screen"), recipe["spec_over"]), wd))
                fp = vals[1].plan(optimize_graph=False)
            for _, d in fp.dag.nodes(data=True):
                t = d.get("target")
                ch = getattr(t, "chunks", None)
                if ch and any(isinstance(c, (tuple, list)) and len(set(c[:-1])) > 1 for c in ch):
                    irregular = True
            if irregular and fp.num_tasks <= 500:
                break
        except Exception:
            continue
    return recipe, irregular


EXTRA = ("shifted_reserve_outcomes", "shifted_both_accepted", "tight_rechunks_with_irregular_grid", "executor_matrix_outcomes", "outcomes_compared", "both_accepted", "both_refused", "numpy_checked")


def run_shard(spec, workdir):
    rng = random.Random(spec["seed"])
    res = _rc.new_result(EXTRA)
    for k in range(spec["n"]):
        g = gen.Gen(rng.getrandbits(48), maxdim=spec["maxdim"], depth=spec["depth"])
        g.maxblocks = 24
        recipe, np_vals = g.generate()
        res["counters"]["recipes"] += 1
        for o in gen.recipe_ops(recipe):
            _rc.bump(res["hist"]["ops"], o)
        wd = os.path.join(workdir, f"r{k}")
        base = run_variant(recipe, "explicit_default", os.path.join(wd, "base"))
        if base["results"] is not None:
            rec = {"results": base["results"]}
            diffs = runner.check_values(recipe, np_vals, rec)
            res["counters"]["numpy_checked"] += 1
        variants = ["global_default"] + rng.sample(VARIANTS[2:], 3)
        for v in variants:
            got = run_variant(recipe, v, os.path.join(wd, v))
            res["evaluations"] += 1
            res["counters"]["outcomes_compared"] += 1
            _rc.bump(res["hist"]["config"], v)
            if got["exc"] is None and base["exc"] is None:
                res["counters"]["both_accepted"] += 1
            elif got["exc"] is not None and base["exc"] is not None:
                res["counters"]["both_refused"] += 1
                _rc.bump(res["hist"]["exceptions"], got["exc"]["type"])
            viols = compare_outcomes(recipe, np_vals, v, base, got)
            for x in viols:
                x["property"] = PROPERTY
                x["case"] = {"recipe": recipe, "variant": v}
            res["violations"].extend(viols)
            if gen.is_nontrivial(recipe, np_vals):
                res["nontrivial"].append(gen.rhash([recipe, v]))
        shutil.rmtree(wd, ignore_errors=True)
        if not res["samples"] and spec.get("shard", 0) == 0:
            res["samples"].append({"recipe": recipe, "variants": variants})
    # the same data memory under different reserves, at budgets where fusion decisions are tight: acceptance and values
    # may depend on allowed_mem - reserved_mem only
    for k in range(spec.get("shifted", 6)):
        wd = os.path.join(workdir, f"s{k}")
        recipe, np_vals = fusion_tree_recipe(rng)
        if recipe is None:
            continue
        budgets = plan_budgets(recipe, os.path.join(wd, "probe"))
        if not budgets:
            shutil.rmtree(wd, ignore_errors=True)
            continue
        data_mem = rng.choice(budgets)
        recipe["spec_over"] = {"data_mem": data_mem}
        base = run_variant(recipe, "shifted:0", os.path.join(wd, "base"))
        for r_ in rng.sample([10_000, 1_000_000, 100_000_000, 1_000], 2):
            v = f"shifted:{r_}"
            got = run_variant(recipe, v, os.path.join(wd, "v"))
            shutil.rmtree(os.path.join(wd, "v"), ignore_errors=True)
            res["evaluations"] += 1
            res["counters"]["outcomes_compared"] += 1
            res["counters"]["shifted_reserve_outcomes"] += 1
            _rc.bump(res["hist"]["config"], "shifted")
            if got["exc"] is None and base["exc"] is None:
                res["counters"]["both_accepted"] += 1
                res["counters"]["shifted_both_accepted"] += 1
            viols = compare_outcomes(recipe, np_vals, v, base, got)
            for x in viols:
                x["property"] = PROPERTY
                x["msg"] = x["msg"].replace("explicit_default", "shifted:0") + f" | data memory {data_mem}"
                x["case"] = {"recipe": recipe, "variant": v}
            res["violations"].extend(viols)
            res["nontrivial"].append(gen.rhash([recipe, v]))
        shutil.rmtree(wd, ignore_errors=True)
    # executor matrix on memory-tight rechunks (rectilinear intermediates): the executor named in the Spec must not
    # change acceptance or values
    for k in range(spec.get("tight", 3)):
        wd = os.path.join(workdir, f"t{k}")
        recipe, irregular = tight_rechunk_recipe(rng, wd)
        if recipe is None:
            continue
        np_vals = gen.np_eval(recipe)
        if irregular:
            res["counters"]["tight_rechunks_with_irregular_grid"] += 1
        base = run_variant(recipe, "explicit_default", os.path.join(wd, "base"))
        for v in ("executor_threads", "executor_processes"):
            got = run_variant(recipe, v, os.path.join(wd, v))
            res["evaluations"] += 1
            res["counters"]["outcomes_compared"] += 1
            res["counters"]["executor_matrix_outcomes"] += 1
            _rc.bump(res["hist"]["config"], v)
            if got["exc"] is None and base["exc"] is None:
                res["counters"]["both_accepted"] += 1
            viols = compare_outcomes(recipe, np_vals, v, base, got)
            for x in viols:
                x["property"] = PROPERTY
                x["case"] = {"recipe": recipe, "variant": v}
            res["violations"].extend(viols)
            res["nontrivial"].append(gen.rhash([recipe, v]))
        shutil.rmtree(wd, ignore_errors=True)
    return res


def replay(rep, workdir):
    res = _rc.new_result(EXTRA)
    case = rep["case"]
    np_vals = gen.np_eval(case["recipe"])
    base = run_variant(case["recipe"], "shifted:0" if case["variant"].startswith("shifted:") else "explicit_default", os.path.join(workdir, "base"))
    got = run_variant(case["recipe"], case["variant"], os.path.join(workdir, "v"))
    print("replay base", base["phase"], base["exc"], "variant", got["phase"], got["exc"])
    viols = compare_outcomes(case["recipe"], np_vals, case["variant"], base, got)
    for x in viols:
        x["property"] = PROPERTY
        x["case"] = case
    res["violations"] = viols
    res["evaluations"] = 1
    return res


def finalize(tier, merged):
    c = merged["counters"]
    return {
        "rule": RULE,
        "floors": [
            ("(recipe, variant) outcomes compared with the baseline variant", c.get("outcomes_compared", 0), 1400 if tier == "quick" else 7000),
            ("of which both accepted and values compared", c.get("both_accepted", 0), 800 if tier == "quick" else 4000),
            ("memory-tight rechunks with a rectilinear intermediate grid run under the executor matrix", c.get("tight_rechunks_with_irregular_grid", 0), 20 if tier == "quick" else 100),
            ("outcomes compared between Specs with the same data memory and different reserves, at tight budgets", c.get("shifted_reserve_outcomes", 0), 200 if tier == "quick" else 1200),
            ("of which both accepted and values compared", c.get("shifted_both_accepted", 0), 60 if tier == "quick" else 400),
            ("distinct operations of the table exercised", len(merged["hist"].get("ops", {})), 100),
        ],
        "assumptions": ASSUMPTIONS,
    }
