"""C02 - graph optimisation (operation fusion) never changes any computed value.

Differential monitor: the same recipe is built and computed unoptimised (reference) and under a
set of optimiser settings; requested arrays are compared bit-exactly (fusion applies the same
functions to the same blocks and only removes a lossless store round trip), and every requested
array is read back with plain zarr from its own store to check that it was materialised.
"""
from __future__ import annotations

import os
import random
import shutil
from functools import partial

import numpy as np

from checks import _rc
from vlib import gen, runner

PROPERTY = "C02"
LEVEL = "exploration"
TIMEOUT = {"quick": 1500, "thorough": 7200}
RULE = (
    "recipes from vlib.gen.Gen biased to fusion-relevant shapes (chains, diamonds, repeated arguments f(x,x), mixed "
    "levels, multi-output ops, reductions with iterator arguments, selections, rechunks; 35% extended with a lazy "
    "store/to_zarr of a requested array into a path or an existing array chunked equal/finer/coarser/unrelated, plus a "
    "consumer of the stored array: elementwise, f(s,s), reduction, f(s, source)) x requested-array subsets "
    "(incl. an intermediate and its consumer) x optimisers {default, multiple_inputs with max_total_source_arrays in "
    "{1,2,4,8} and max_total_num_input_blocks in {None,1,4,10,100}, random always_fuse/never_fuse subsets, "
    "simple_optimize_dag, fuse_all_optimize_dag, fuse_only_optimize_dag}. An evaluation = one (recipe, optimiser) pair "
    "compared with the unoptimised run; non-trivial = the optimiser actually changed the DAG (fewer operations) and the "
    "values were compared; distinct by hash of (recipe, optimiser)"
)
ASSUMPTIONS = [
    "reference = cubed itself with optimize_graph=False on a fresh build of the same recipe",
    "integers/booleans compared exactly; floats bit-exactly or within 16 ulp (NumPy's SIMD transcendental functions differ in the last bit between array layouts, and fusion changes the layout a function sees; seen once in a thorough run: asinh, 1 ulp)",
    "a memory-admission ValueError under a fusion-forcing optimiser (fuse_all / always_fuse / fuse_only) is allowed by the property and not judged",
]
NSHARDS = {"quick": 16, "thorough": 16}
PER_SHARD = {"quick": 40, "thorough": 260}


def shards(tier, seed):
    return [
        {"n": PER_SHARD[tier], "maxdim": 8 if tier == "quick" else 12, "depth": 5 if tier == "quick" else 7,
         "watchdog_s": TIMEOUT[tier] - 30}
        for _ in range(NSHARDS[tier])
    ]


def optimizer_specs(rng):
    specs = [{"kind": "default"}]
    specs.append({"kind": "multi", "max_total_source_arrays": rng.choice([1, 2, 4, 8]),
                  "max_total_num_input_blocks": rng.choice([None, 1, 4, 10, 100])})
    specs.append({"kind": "multi", "always_frac": rng.choice([0.3, 0.6, 1.0]), "never_frac": rng.choice([0.0, 0.3]),
                  "sel_seed": rng.getrandbits(20), "max_total_num_input_blocks": rng.choice([None, 10])})
    specs.append({"kind": "simple"})
    specs.append({"kind": "fuse_all"})
    specs.append({"kind": "fuse_only", "only_frac": rng.choice([0.3, 0.6]), "sel_seed": rng.getrandbits(20)})
    return specs


def build_optimizer(o):
    from cubed.core import optimization as opt

    k = o["kind"]
    if k == "default":
        return None
    if k == "simple":
        return opt.simple_optimize_dag
    if k == "fuse_all":
        return opt.fuse_all_optimize_dag

    def pick(dag, frac, seed, exclude=()):
        ops = sorted(n for n in dag.nodes() if str(n).startswith("op-"))
        r = random.Random(seed)
        return [n for n in ops if n not in exclude and r.random() < frac]

    if k == "fuse_only":
        def f(dag, array_names=None):
            return opt.fuse_only_optimize_dag(dag, array_names=array_names, only_fuse=pick(dag, o["only_frac"], o["sel_seed"]))
        return f

    def g(dag, array_names=None):
        kw = {}
        if "max_total_source_arrays" in o:
            kw["max_total_source_arrays"] = o["max_total_source_arrays"]
        if "max_total_num_input_blocks" in o:
            kw["max_total_num_input_blocks"] = o["max_total_num_input_blocks"]
        if "always_frac" in o:
            al = pick(dag, o["always_frac"], o["sel_seed"])
            ne = pick(dag, o.get("never_frac", 0.0), o["sel_seed"] + 1, exclude=al)
            kw["always_fuse"] = al
            kw["never_fuse"] = ne
        return opt.multiple_inputs_optimize_dag(dag, array_names=array_names, **kw)

    return g


def forces_fusion(o):
    return o["kind"] in ("fuse_all", "fuse_only") or "always_frac" in o


def run_once(recipe, workdir, optimize, o):
    """Build + compute; returns dict(results, nops, exc, phase, materialised)"""
    import cubed
    from cubed.storage.zarr import LazyZarrArray

    os.makedirs(workdir, exist_ok=True)
    spec = runner.make_spec(workdir)
    env = gen.BuildEnv(spec, workdir)
    out = {"results": None, "exc": None, "phase": "build", "nops": None, "missing": []}
    try:
        vals = gen.cu_build(recipe, env)
        outs = [vals[i] for i in recipe["outputs"]]
        if recipe.get("store_ext"):
            outs = apply_store_ext(recipe["store_ext"], outs, workdir, out)
        optf = build_optimizer(o) if optimize else None
        out["phase"] = "plan"
        fp = cubed.plan(*outs, optimize_graph=optimize, optimize_function=optf)
        out["nops"] = sum(1 for _, d in fp.dag.nodes(data=True) if d.get("type") == "op")
        out["phase"] = "execute"
        res = cubed.compute(*outs, executor=runner.make_executor("single-threaded"), optimize_graph=optimize, optimize_function=optf)
        out["results"] = [np.asarray(r) for r in res]
        out["phase"] = "done"
        # materialisation: read each requested array back from its own store with plain zarr
        if out.get("target_path"):
            # the store target, read with plain zarr (whether or not the stored array itself was requested)
            import zarr

            try:
                z = zarr.open_array(out["target_path"], mode="r")
                out["target_chunks_present"] = [int(z.nchunks_initialized), int(z.nchunks)]
                out["target_value"] = np.asarray(z[...])
            except Exception as e:
                out["target_value"] = None
                out["target_error"] = f"{type(e).__name__}: {e}"[:200]
        for k, a in enumerate(outs):
            za = a._zarray
            if isinstance(za, LazyZarrArray) and a.size > 0 and a.dtype.fields is None:
                import zarr

                try:
                    z = zarr.open_array(store=za.store, path=za.path, mode="r")
                    if z.nchunks_initialized != z.nchunks:
                        out["missing"].append((k, f"{z.nchunks_initialized}/{z.nchunks} chunks present"))
                    elif not np.array_equal(np.asarray(z[...]), out["results"][k], equal_nan=True):
                        out["missing"].append((k, "stored content differs from returned result"))
                    out["materialised_checked"] = out.get("materialised_checked", 0) + 1
                except Exception as e:
                    out["missing"].append((k, f"cannot open requested array in storage: {type(e).__name__}: {e}"[:200]))
    except Exception as e:
        out["exc"] = runner.exc_info(e)
    return out


def apply_store_ext(ext, outs, workdir, out):
    """Save one requested array with a lazy store / to_zarr and derive a consumer from the stored array.

    ext: {"which": j, "api", "target": path|equal|finer|coarser|unrelated, "geo_seed", "consumer": negative|twice|
    reduce|with_source|None, "request": consumer|both|stored}. Returns the new list of requested arrays."""
    import zarr

    import cubed
    import cubed.array_api as xp

    j = ext["which"] % len(outs)
    src = outs[j]
    if src.dtype.fields is not None:
        return outs
    rng = random.Random(ext["geo_seed"])
    path = os.path.join(workdir, "user-target.zarr")
    kind = ext["target"] if src.ndim > 0 and src.size > 0 else "path"
    if kind == "path":
        tgt = path
    else:
        tch = []
        for cs, d in zip(src.chunksize, src.shape):
            if kind == "equal":
                tch.append(cs)
            elif kind == "finer":
                tch.append(rng.choice([x for x in range(1, cs + 1) if cs % x == 0]))
            elif kind == "coarser":
                tch.append(min(d, cs * rng.choice([2, 3])))
            else:
                tch.append(rng.randint(1, d))
        tgt = zarr.create_array(path, shape=src.shape, chunks=tuple(tch), dtype=src.dtype, fill_value=0)
        out["target_chunks"] = tch
    if ext["api"] == "to_zarr":
        stored = cubed.to_zarr(src, tgt, compute=False)
    else:
        stored = cubed.store([src], [tgt], compute=False)[0]
    out["target_path"] = path
    isb = stored.dtype == np.bool_
    c = ext.get("consumer")
    if c == "negative":
        cons = xp.logical_not(stored) if isb else xp.negative(stored)
    elif c == "twice":
        cons = xp.logical_or(stored, stored) if isb else xp.add(stored, stored)
    elif c == "reduce":
        cons = xp.any(stored) if isb else xp.max(stored) if stored.size > 0 else xp.sum(stored)
    elif c == "with_source":
        cons = xp.logical_and(stored, src) if isb else xp.multiply(stored, src)
    else:
        cons = None
    rest = [a for k, a in enumerate(outs) if k != j]
    req = ext["request"] if cons is not None else "stored"
    out["stored_index"] = None
    if req == "consumer":
        new = rest + [cons]
    elif req == "both":
        new = rest + [stored, cons]
        out["stored_index"] = len(rest)
    else:
        new = rest + [stored]
        out["stored_index"] = len(rest)
    return new


def same_bits(a, b):
    if a.shape != b.shape or a.dtype != b.dtype:
        return f"shape/dtype differ: {a.shape}/{a.dtype} vs {b.shape}/{b.dtype}"
    if a.dtype.kind in "fc":
        ok = np.array_equal(a, b, equal_nan=True)
        if not ok:
            # NumPy's vectorised transcendental functions are not bit-reproducible across array lengths and
            # strides (SIMD body vs scalar tail), and fusion changes the layout a function is applied to: allow
            # a few units in the last place, nothing more
            eps = float(np.finfo(a.dtype).eps)
            with np.errstate(all="ignore"):
                fin = np.isfinite(a)
                scale = float(np.max(np.abs(a[fin]))) if fin.any() else 1.0
                close = np.isclose(b, a, rtol=16 * eps, atol=16 * eps * scale, equal_nan=True)
            if close.all():
                return None
            bad = np.argwhere(~close)
            i = tuple(int(x) for x in bad[0])
            return f"{len(bad)}/{a.size} elements differ by more than 16 ulp; first at {i}: unoptimised {a[i]!r} optimised {b[i]!r}"
    else:
        ok = np.array_equal(a, b)
    if ok:
        return None
    bad = np.argwhere(~((a == b) | ((a != a) & (b != b))))
    i = tuple(int(x) for x in bad[0]) if len(bad) else ()
    return f"{len(bad)}/{a.size} elements differ; first at {i}: unoptimised {a[i]!r} optimised {b[i]!r}"


def out_label(recipe, j):
    if recipe.get("store_ext"):
        return f"requested #{j} of a recipe extended with {recipe['store_ext']}"
    n = recipe["outputs"][j]
    return f"node {n}:{recipe['nodes'][n]['op']}"


def judge_target(ref, got, res):
    """Store target after the optimised run, when the stored array was among the requested ones."""
    if "target_path" not in got:
        return None
    si = got.get("stored_index")
    if si is None:
        # only a consumer was requested: the property does not say whether the target must be written
        if got.get("target_value") is None or (got.get("target_chunks_present") or [0, 1])[0] != got["target_chunks_present"][1]:
            res["counters"]["targets_left_unwritten_when_only_a_consumer_was_requested"] += 1
        return None
    res["counters"]["store_targets_checked"] += 1
    tv = got.get("target_value")
    if tv is None:
        return ("store-target-not-materialised", f"requested stored array: target cannot be read back ({got.get('target_error')})")
    p = got["target_chunks_present"]
    if p[0] != p[1]:
        return ("store-target-not-materialised", f"requested stored array: only {p[0]}/{p[1]} chunks of the target are present")
    d = same_bits(ref["results"][si].astype(tv.dtype, copy=False), tv)
    if d:
        return ("store-target-differs", f"target content differs from the unoptimised result of the stored array: {d}")
    return None


def run_shard(spec, workdir):
    rng = random.Random(spec["seed"])
    res = _rc.new_result(("recipes_with_store_target", "store_targets_checked", "targets_left_unwritten_when_only_a_consumer_was_requested", "pairs_compared", "dag_changed", "materialised_checked", "reference_declined", "optimised_declined_mem"))
    gkw = {"maxdim": spec["maxdim"], "depth": spec["depth"], "allow_zero": False,
           "weights": {"binary": 16, "unary": 10, "reduce": 12, "multi": 5, "rechunk": 4, "index": 7, "manip": 10, "linalg": 5, "castchain": 6}}
    for k in range(spec["n"]):
        g = gen.Gen(rng.getrandbits(48), **gkw)
        recipe, np_vals = g.generate()
        # request an intermediate together with its consumer now and then
        if rng.random() < 0.4:
            arrs = [i for i, v in np_vals.items() if isinstance(v, np.ndarray)]
            extra = rng.choice(arrs)
            if extra not in recipe["outputs"] and recipe["nodes"][extra]["op"] != "pick":
                recipe["outputs"].append(extra)
        if rng.random() < 0.35:
            recipe["store_ext"] = {
                "which": rng.randrange(8), "api": rng.choice(["store", "to_zarr"]),
                "target": rng.choice(["path", "equal", "finer", "finer", "coarser", "unrelated"]), "geo_seed": rng.getrandbits(30),
                "consumer": rng.choice(["negative", "twice", "reduce", "with_source", "negative", None]),
                "request": rng.choice(["consumer", "consumer", "both", "stored"]),
            }
            res["counters"]["recipes_with_store_target"] += 1
        res["counters"]["recipes"] += 1
        for o in gen.recipe_ops(recipe):
            _rc.bump(res["hist"]["ops"], o)
        wd = os.path.join(workdir, f"r{k}")
        ref = run_once(recipe, os.path.join(wd, "ref"), False, None)
        if ref["exc"] is not None:
            res["counters"]["reference_declined"] += 1
            shutil.rmtree(wd, ignore_errors=True)
            continue
        for o in optimizer_specs(rng):
            got = run_once(recipe, os.path.join(wd, "opt"), True, o)
            shutil.rmtree(os.path.join(wd, "opt"), ignore_errors=True)
            res["evaluations"] += 1
            res["counters"]["runs"] += 1
            _rc.bump(res["hist"]["config"], o["kind"])
            case = {"recipe": recipe, "optimizer": o}
            facts = {"optimizer": o, "ops": gen.recipe_ops(recipe), "outputs": recipe["outputs"]}
            if got["exc"] is not None:
                e = got["exc"]
                if forces_fusion(o) and e["type"] == "ValueError" and "allowed_mem" in e["msg"]:
                    res["counters"]["optimised_declined_mem"] += 1
                    continue
                facts.update(exc=e, phase=got["phase"])
                res["violations"].append({
                    "property": PROPERTY, "kind": "optimised-run-fails",
                    "msg": f"optimiser {o}: unoptimised run succeeds but optimised run raises {e['type']} ({e['msg'][:150]}) in phase {got['phase']} at {e['where']}",
                    "facts": facts, "case": case})
                continue
            res["counters"]["pairs_compared"] += 1
            res["counters"]["materialised_checked"] += got.get("materialised_checked", 0)
            changed = got["nops"] is not None and ref["nops"] is not None and got["nops"] < ref["nops"]
            if changed:
                res["counters"]["dag_changed"] += 1
                res["nontrivial"].append(gen.rhash([recipe, o]))
            for j, (a, b) in enumerate(zip(ref["results"], got["results"])):
                d = same_bits(a, b)
                if d:
                    lab = out_label(recipe, j)
                    facts2 = dict(facts, output=lab, op=lab.split(":")[-1], diff=d)
                    res["violations"].append({
                        "property": PROPERTY, "kind": "value-changed-by-optimisation",
                        "msg": f"optimiser {o}: requested array #{j} ({lab}): {d}",
                        "facts": facts2, "case": case})
                    break
            viol = judge_target(ref, got, res)
            if viol:
                res["violations"].append({"property": PROPERTY, "kind": viol[0], "msg": f"optimiser {o}: {viol[1]}",
                                          "facts": dict(facts, store_ext=recipe.get("store_ext")), "case": case})
            for j, why in got["missing"]:
                res["violations"].append({
                    "property": PROPERTY, "kind": "requested-array-not-materialised",
                    "msg": f"optimiser {o}: requested array #{j} ({out_label(recipe, j)}): {why}",
                    "facts": dict(facts, output=out_label(recipe, j), why=why), "case": case})
        shutil.rmtree(wd, ignore_errors=True)
        if len(res["samples"]) < 2 and spec.get("shard", 0) == 0:
            res["samples"].append({"recipe": recipe, "optimizers": optimizer_specs(random.Random(0))})
    return res


def replay(rep, workdir):
    case = rep["case"]
    res = _rc.new_result(("pairs_compared",))
    ref = run_once(case["recipe"], os.path.join(workdir, "ref"), False, None)
    got = run_once(case["recipe"], os.path.join(workdir, "opt"), True, case["optimizer"])
    print("replay: ref exc", ref["exc"], "opt exc", got["exc"], "missing", got["missing"])
    res["evaluations"] = 1
    if ref["exc"] is None:
        if got["exc"] is not None:
            res["violations"].append({"property": PROPERTY, "kind": "optimised-run-fails", "msg": str(got["exc"]), "facts": {}, "case": case})
        else:
            for a, b in zip(ref["results"], got["results"]):
                d = same_bits(a, b)
                if d:
                    res["violations"].append({"property": PROPERTY, "kind": "value-changed-by-optimisation", "msg": d, "facts": {}, "case": case})
            for j, why in got["missing"]:
                res["violations"].append({"property": PROPERTY, "kind": "requested-array-not-materialised", "msg": why, "facts": {}, "case": case})
    return res


def finalize(tier, merged):
    c = merged["counters"]
    return {
        "rule": RULE,
        "floors": [
            ("(recipe, optimiser) pairs compared with the unoptimised run", c.get("pairs_compared", 0), 2200 if tier == "quick" else 12500),
            ("pairs where the optimiser changed the DAG", c.get("dag_changed", 0), 700 if tier == "quick" else 4500),
            ("store targets of requested stored arrays read back after an optimised run", c.get("store_targets_checked", 0), 150 if tier == "quick" else 900),
            ("requested arrays read back from storage", c.get("materialised_checked", 0), 1300 if tier == "quick" else 7500),
        ],
        "assumptions": ASSUMPTIONS,
    }
