"""C11 - store/to_zarr fill every target completely, and only inside the requested region.

Monitor: every target is read back with plain zarr after the call (or, for compute=False, after the
returned arrays were computed) and compared with the NumPy paste model 'sentinel pre-fill with the
source pasted into the region'. Existing targets are pre-filled with a sentinel by the harness, so
both a chunk that was never written and a write outside the region are visible. For rejected calls
the store tracer checks that nothing had been written before the error.
The same workload is used by C05 (single-writer / whole-chunk monitors on user-supplied targets).
"""
from __future__ import annotations

import os
import random
import shutil
import warnings

import numpy as np

from checks import _rc
from vlib import advexec, blockshape, gen, runner, storetrace

PROPERTY = "C11"
LEVEL = "exploration"
TIMEOUT = {"quick": 1500, "thorough": 7200}
RULE = (
    "call-shape matrix: sources {in-memory, computed (elementwise/reduction), rechunked, fused chain} x targets {new path, "
    "path+group (to_zarr), existing Zarr array with equal / coarser / finer / unrelated chunking, sharded array} x regions "
    "{none, full, chunk-aligned offset (spelled plainly, with open ends, with negative bounds, with an explicit step of 1, or - to be refused - with a step of 2), misaligned, wrong shape, overhang} x {store, to_zarr} x {eager, compute=False} x pair lists with "
    "a repeated source or several sources x {source never computed, source computed before the store call (30%)} x executors {single-threaded, threads, harness-sequential}; geometry randomised "
    "inside each cell. An evaluation = one call; non-trivial = the call was accepted and its target(s) read back and compared "
    "(or it was rejected and the trace inspected); distinct by hash of the call description"
)
ASSUMPTIONS = [
    "targets are read back with plain zarr, independent of cubed",
    "sentinel value -7 (or True for bool) does not occur in source data",
]
NSHARDS = {"quick": 16, "thorough": 16}
PER_SHARD = {"quick": 90, "thorough": 900}
SENT = -7


def shards(tier, seed):
    return [{"n": PER_SHARD[tier], "watchdog_s": TIMEOUT[tier] - 30} for _ in range(NSHARDS[tier])]


def draw_call(rng):
    nd = rng.choice([1, 2, 2, 2, 3])
    shape = [rng.randint(2, 9) for _ in range(nd)]
    src_chunks = [rng.randint(1, d) for d in shape]
    c = {
        "shape": shape, "src_chunks": src_chunks, "dtype": rng.choice(["int64", "float64", "int32", "float32"]),
        "source": rng.choice(["memory", "computed", "computed", "reduced", "rechunked", "chain"]),
        "api": rng.choice(["store", "store", "to_zarr"]),
        "lazy": rng.random() < 0.3,
        "executor": rng.choice(["single-threaded", "threads", "threads", "seq"]),
        "seed": rng.getrandbits(30),
        "optimize": rng.random() < 0.7,
    }
    # history: the source was already computed (materialised in the intermediate store) before it is stored
    c["precompute"] = c["source"] != "memory" and rng.random() < 0.3
    tk = rng.choice(["path", "path", "existing_equal", "existing_coarser", "existing_finer", "existing_unrelated", "sharded", "group"])
    if tk == "group" and c["api"] != "to_zarr":
        tk = "path"
    c["target"] = tk
    # region
    rk = rng.choice(["none", "none", "none", "full", "aligned", "aligned", "misaligned", "wrong_shape", "overhang"])
    if tk in ("path", "group"):
        rk = "none"
    c["region"] = rk
    c["pairs"] = rng.choice(["single", "single", "same_source_two_targets", "two_sources"]) if c["api"] == "store" and tk == "path" else "single"
    return complete_target_geometry(c, rng)


def complete_target_geometry(c, rng):
    tk, rk, shape, src_chunks, nd = c["target"], c["region"], c["shape"], c["src_chunks"], len(c["shape"])
    if tk not in ("path", "group") and c.get("pairs", "single") != "single":
        c["pairs"] = "single"
    # geometry of an existing target
    if tk.startswith("existing") or tk == "sharded":
        if rk in ("aligned", "misaligned", "wrong_shape", "overhang"):
            tshape = [d + rng.randint(1, 6) for d in shape]
        else:
            tshape = list(shape)
        if tk == "existing_equal":
            tch = list(src_chunks)
        elif tk == "existing_coarser":
            tch = [min(t, s * rng.randint(2, 3)) for s, t in zip(src_chunks, tshape)]
        elif tk == "existing_finer":
            tch = [max(1, s // rng.randint(2, 3)) for s in src_chunks]
        else:
            tch = [rng.randint(1, t) for t in tshape]
        c["tshape"], c["tchunks"] = tshape, tch
        if tk == "sharded":
            inner = [rng.randint(1, 3) for _ in shape]
            c["tchunks"] = inner
            c["tshards"] = [i * rng.randint(1, 3) for i in inner]
        if rk in ("aligned", "misaligned", "wrong_shape"):
            unit = c.get("tshards", c["tchunks"])
            starts = []
            for d, t, u in zip(shape, tshape, unit):
                maxstart = t - d
                cands = [s for s in range(0, maxstart + 1) if s % u == 0]
                if rk == "misaligned":
                    bad = [s for s in range(0, maxstart + 1) if s % u != 0]
                    starts.append(rng.choice(bad) if bad and rng.random() < 0.8 else rng.choice(cands))
                else:
                    starts.append(rng.choice(cands))
            ext = list(shape)
            if rk == "wrong_shape":
                j = rng.randrange(nd)
                ext[j] = max(1, ext[j] + rng.choice([-1, 1]))
            c["region_slices"] = [[s, min(t, s + e)] for s, e, t in zip(starts, ext, tshape)]
            if rk == "aligned":
                # other spellings of the same region: python-style open ends, negative bounds, an explicit step of 1;
                # and a region with a step of 2 (not a contiguous region: has to be refused before anything runs)
                c["open_ends"] = rng.random() < 0.3
                c["spelling"] = rng.choice(["plain", "plain", "negative", "negative", "step1", "stepped"])
        elif rk == "overhang":
            # chunk-aligned start, stop beyond the end of the target on one axis; source has the unclipped extent
            unit = c.get("tshards", c["tchunks"])
            j = rng.randrange(nd)
            sl = []
            for k, (d, t, u) in enumerate(zip(shape, tshape, unit)):
                if k == j:
                    cands = [s for s in range(0, t + 1) if s % u == 0 and s + d > t and (s + d) % u == 0]
                    if not cands:
                        cands = [s for s in range(0, t + 1) if s % u == 0 and s + d > t]
                    s0 = rng.choice(cands) if cands else (t // u) * u
                    sl.append([s0, s0 + d])
                else:
                    cands = [s for s in range(0, t - d + 1) if s % u == 0 and ((s + d) % u == 0 or s + d == t)]
                    s0 = rng.choice(cands) if cands else 0
                    sl.append([s0, s0 + d])
            c["region_slices"] = sl
        elif rk == "full":
            c["region_slices"] = [[None, None] for _ in shape]
    return c


def src_data(c, k=0):
    n = int(np.prod(c["shape"]))
    rs = np.random.RandomState((c["seed"] + k) % (2**31))
    return (rs.permutation(n) + 1 + 1000 * k).reshape(c["shape"]).astype(c["dtype"])


def build_source(c, spec, k=0):
    import cubed
    import cubed.array_api as xp

    data = src_data(c, k)
    chunks = tuple(c["src_chunks"])
    kind = c["source"]
    a = xp.asarray(data, chunks=chunks, spec=spec)
    if kind == "memory":
        return a, data
    if kind == "computed":
        return a + 1, data + 1
    if kind == "reduced":
        b = xp.asarray(data, chunks=chunks, spec=spec)
        return xp.maximum(a, b) * 2, data * 2
    if kind == "rechunked":
        other = tuple(max(1, min(d, ch + 1)) for d, ch in zip(c["shape"], chunks))
        return xp.asarray(data, chunks=other, spec=spec).rechunk(chunks), data
    return xp.negative(xp.negative(a + 1) - 1) + 0, (data + 1) + 1


def make_target(c, workdir, k=0):
    """-> (target object to pass, reader(), expected_before)"""
    import zarr

    tk = c["target"]
    path = os.path.join(workdir, f"target{k}.zarr")
    if tk == "path":
        return path, (lambda: zarr.open_array(path, mode="r")[...]), None
    if tk == "group":
        return path, (lambda: zarr.open_array(path, path="grp/x", mode="r")[...]), None
    with storetrace.paused():
        kw = {}
        if tk == "sharded":
            kw["shards"] = tuple(c["tshards"])
        z = zarr.create_array(store=path, shape=tuple(c["tshape"]), dtype=c["dtype"], chunks=tuple(c["tchunks"]), overwrite=True, **kw)
        z[...] = SENT
    zt = zarr.open_array(path, mode="r+")
    before = np.full(tuple(c["tshape"]), SENT, dtype=c["dtype"])
    return zt, (lambda: zarr.open_array(path, mode="r")[...]), before


def region_of(c):
    if c["region"] in ("none",):
        return None
    sl = []
    sp = c.get("spelling", "plain")
    for k, ((a, b), t) in enumerate(zip(c["region_slices"], c.get("tshape", c["shape"]))):
        if c.get("open_ends") and a == 0:
            a = None
        if c.get("open_ends") and b == t:
            b = None
        if sp == "negative":
            # the same elements, counted from the end
            if a is not None and a > 0:
                a = a - t
            if b is not None and b < t:
                b = b - t
            elif b is not None and b == t:
                b = None
            sl.append(slice(a, b))
        elif sp == "step1":
            sl.append(slice(a, b, 1))
        elif sp == "stepped" and k == 0:
            # every second element: with the source's extent where that fits into the target, else over [a, b)
            a0 = a or 0
            d = c["shape"][0]
            if a0 + 2 * d - 1 <= t:
                sl.append(slice(a, a0 + 2 * d - 1, 2))
            else:
                sl.append(slice(a, b, 2))
        else:
            sl.append(slice(a, b))
    return tuple(sl)


def region_is_stepped(c):
    return c.get("spelling") == "stepped" and c["region"] == "aligned"


def run_call(c, workdir, res, monitors_c05=False, callbacks=None):
    """-> (violations for C11, c05 observations)"""
    import cubed

    warnings.simplefilter("ignore")
    storetrace.install()
    blockshape.install()
    os.makedirs(workdir, exist_ok=True)
    spec = runner.make_spec(workdir)
    viols = []
    facts = {"call": c}

    def V(kind, msg, **kw):
        viols.append({"kind": kind, "msg": f"{msg} | call {c}", "facts": dict(facts, **kw)})

    npairs = 2 if c["pairs"] != "single" else 1
    srcs, exps = [], []
    for k in range(npairs):
        if c["pairs"] == "same_source_two_targets" and k == 1:
            srcs.append(srcs[0])
            exps.append(exps[0])
        else:
            s, e = build_source(c, spec, k)
            srcs.append(s)
            exps.append(e)
    if c.get("precompute"):
        try:
            for s_ in {id(s_): s_ for s_ in srcs}.values():
                s_.compute(executor=runner.make_executor("single-threaded"))
            res["counters"]["sources_computed_before_the_store"] = res["counters"].get("sources_computed_before_the_store", 0) + 1
        except Exception:
            pass
    targets = [make_target(c, workdir, k) for k in range(npairs)]
    region = region_of(c)
    ex = advexec.SeqExecutor({"order": "shuffle", "seed": 5}) if c["executor"] == "seq" else advexec.Wrap(runner.make_executor(c["executor"]))
    storetrace.TRACE.start(digest=False)
    blockshape.start()
    err = None
    try:
        kw = {"executor": ex, "optimize_graph": c["optimize"]}
        if callbacks:
            kw["callbacks"] = callbacks
        if c["api"] == "to_zarr":
            tkw = {"path": "grp/x"} if c["target"] == "group" else {}
            if c["lazy"]:
                out = cubed.to_zarr(srcs[0], targets[0][0], region=region, compute=False, **tkw)
                out.compute(_return_in_memory_array=False, **kw)
            else:
                cubed.to_zarr(srcs[0], targets[0][0], region=region, **tkw, **kw)
        else:
            s_arg = srcs if npairs > 1 else srcs[0]
            t_arg = [t[0] for t in targets] if npairs > 1 else targets[0][0]
            if c["lazy"]:
                outs = cubed.store(s_arg, t_arg, regions=region, compute=False)
                cubed.compute(*outs, _return_in_memory_array=False, **kw)
            else:
                cubed.store(s_arg, t_arg, regions=region, **kw)
    except Exception as e:
        err = runner.exc_info(e)
    events = storetrace.TRACE.stop()
    writes = blockshape.stop()
    res["evaluations"] += 1
    cell = f"{c['api']}/{c['target']}/{c['region']}/{'lazy' if c['lazy'] else 'eager'}/{c['pairs']}"
    _rc.bump(res["hist"]["config"], cell)
    target_roots = {os.path.join(workdir, f"target{k}.zarr") for k in range(npairs)}
    tgt_muts = [e for e in storetrace.mutations(events) if e["root"] in target_roots and storetrace.classify_key(e["key"] or "")[0] == "data"]
    must_reject = c["region"] in ("misaligned", "wrong_shape") and any(
        (a is not None and a % u != 0) or (b is not None and b % u != 0 and b != t)
        for (a, b), u, t in zip(c.get("region_slices", []), c.get("tshards", c.get("tchunks", [])), c.get("tshape", []))
    )
    entered = getattr(ex, "entries", 0)
    if region_is_stepped(c):
        res["counters"]["stepped_regions"] += 1
    elif c.get("spelling") == "negative":
        res["counters"]["negative_bound_regions"] += 1
    if err is not None:
        res["counters"]["rejected"] += 1
        _rc.bump(res["hist"]["exceptions"], f"{c['target']}/{c['region']}:{err['type']}")
        if (must_reject or region_is_stepped(c)) and entered and not tgt_muts:
            V("unsafe-region-rejected-after-execution-started", f"a region that cannot be written safely ({region}) was only refused ({err['type']}: {err['msg'][:80]}) after the executor had been entered", exc=err)
        elif entered and not tgt_muts:
            # neither filled nor refused up front: the call failed while running (fault-free run)
            V("call-failed-after-execution-started", f"store call with region {region} raised {err['type']} ({err['msg'][:80]}) after the executor had been entered", exc=err)
        if tgt_muts:
            V("written-before-rejection", f"call raised {err['type']} ({err['msg'][:100]}) after {len(tgt_muts)} chunk writes to the target", exc=err)
        elif c["region"] in ("none", "full", "aligned") and not (c["target"] in ("existing_unrelated", "existing_coarser", "existing_finer", "sharded")):
            # a plain store that is rejected: allowed by the property (explicit refusal), recorded
            res["counters"]["plain_calls_rejected"] += 1
        res["nontrivial"].append(gen.rhash(c))
        return viols, None
    res["counters"]["accepted"] += 1
    if region_is_stepped(c):
        V("stepped-region-accepted", f"a region with a step ({region}) was accepted; {len(tgt_muts)} chunk writes to the target")
        return viols, None
    if region is not None and c.get("tshape"):
        rshape = tuple(len(range(*sl.indices(t))) for sl, t in zip(region, c["tshape"]))
        if rshape != tuple(c["shape"]):
            V("wrong-shape-region-accepted", f"a region of shape {rshape} was accepted for a source of shape {tuple(c['shape'])}")
    # read back every target and compare with the paste model
    for k, (tobj, reader, before) in enumerate(targets):
        try:
            got = np.asarray(reader())
        except Exception as e:
            V("target-unreadable", f"target {k} cannot be read back: {type(e).__name__}: {str(e)[:150]}", target=k)
            continue
        res["counters"]["targets_read_back"] += 1
        if before is None:
            want = exps[k]
        else:
            want = before.copy()
            if region is None:
                if want.shape != exps[k].shape:
                    V("shape-mismatch-accepted", f"source shape {exps[k].shape} stored into target of shape {want.shape} without a region", target=k)
                    continue
                want[...] = exps[k]
            else:
                try:
                    want[region] = exps[k]
                except ValueError:
                    continue
        if got.shape != want.shape or not np.array_equal(got, want):
            nbad = int((got != want).sum()) if got.shape == want.shape else -1
            inside = None
            if got.shape == want.shape and before is not None:
                mask = np.zeros(want.shape, bool)
                mask[region if region is not None else ...] = True
                inside = int(((got != want) & mask).sum())
            V("target-content-wrong", f"target {k}: {nbad} elements differ from 'sentinel with source pasted into region' ({inside} of them inside the region)",
              target=k, nbad=nbad, inside=inside)
    res["nontrivial"].append(gen.rhash(c))
    return viols, {"events": events, "writes": writes, "target_roots": target_roots}


EXTRA = ("stepped_regions", "negative_bound_regions", "sources_computed_before_the_store", "accepted", "rejected", "targets_read_back", "plain_calls_rejected")


def run_shard(spec, workdir):
    rng = random.Random(spec["seed"])
    res = _rc.new_result(EXTRA)
    for k in range(spec["n"]):
        c = draw_call(rng)
        wd = os.path.join(workdir, f"c{k}")
        viols, _ = run_call(c, wd, res)
        shutil.rmtree(wd, ignore_errors=True)
        for v in viols:
            v["property"] = PROPERTY
            v["case"] = {"call": c}
        res["violations"].extend(viols)
        if k < 2 and spec.get("shard", 0) == 0:
            res["samples"].append(c)
    return res


def replay(rep, workdir):
    res = _rc.new_result(EXTRA)
    c = rep["case"]["call"]
    viols, _ = run_call(c, os.path.join(workdir, "replay"), res)
    for v in viols:
        v["property"] = PROPERTY
        v["case"] = {"call": c}
    res["violations"] = viols
    return res


def finalize(tier, merged):
    c = merged["counters"]
    return {
        "rule": RULE,
        "floors": [
            ("targets read back and compared with the paste model", c.get("targets_read_back", 0), 800 if tier == "quick" else 7000),
            ("distinct call-shape cells exercised", len(merged["hist"].get("config", {})), 40),
            ("calls whose source had been computed before it was stored", c.get("sources_computed_before_the_store", 0), 150 if tier == "quick" else 1250),
            ("rejected calls whose trace was inspected", c.get("rejected", 0), 100 if tier == "quick" else 1000),
            ("regions spelled with negative bounds", c.get("negative_bound_regions", 0), 25 if tier == "quick" else 200),
            ("regions with a step (must be refused up front)", c.get("stepped_regions", 0), 10 if tier == "quick" else 80),
        ],
        "assumptions": ASSUMPTIONS,
    }
