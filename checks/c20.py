"""C20 - serialised arrays compute the same and are never confused with other arrays.

Monitor: arrays are built in a child process (its own name counters, its own context directory),
shipped with cloudpickle, and in the receiving process computed alone and combined - as either
operand, with shared or disjoint ancestry - with arrays built locally, after the receiver has
created 0..k arrays of its own. Oracle: NumPy.
"""
from __future__ import annotations

import json
import os
import random
import shutil
import subprocess
import sys
import warnings

import numpy as np

from checks import _rc
from vlib import gen, oracle, runner

PROPERTY = "C20"
LEVEL = "exploration"
TIMEOUT = {"quick": 1500, "thorough": 7200}
RULE = (
    "a batch of recipes is built in a fresh child process and each requested array is pickled with cloudpickle; the "
    "receiving process sets its own name counters to k (k = number of arrays it 'already created', drawn from 0..40 or "
    "beyond every name of the child) and then: computes the unpickled array alone (also after a same-process round trip); "
    "combines it with locally built arrays of the same shape as left and right operand of a non-commutative function; and "
    "with arrays derived locally from the unpickled array itself (shared ancestry). An evaluation = one computed "
    "combination; non-trivial = the combination involved both a deserialised and a locally built array; distinct by hash"
)
ASSUMPTIONS = [
    "the receiver's 'number of arrays already created' is emulated by setting cubed's per-process name counters (a fresh receiver process is also sampled)",
    "child and receiver share the filesystem (the child's context directory is where the deserialised array's intermediates go)",
]
NSHARDS = {"quick": 16, "thorough": 16}
PER_SHARD = {"quick": 40, "thorough": 240}

CHILD = r"""
import json, os, sys
sys.path[:0] = json.loads(os.environ["VERIF_SYSPATH"])
import warnings; warnings.simplefilter("ignore")
import cloudpickle, numpy as np
from vlib import gen, runner
import cubed
jobs = json.load(open(sys.argv[1])); outdir = sys.argv[2]
for j, job in enumerate(jobs):
    wd = os.path.join(outdir, f"child{j}")
    os.makedirs(wd, exist_ok=True)
    # advance the child's counters by a job-specific amount
    import cubed.array_api as xp
    for _ in range(job["child_prebuilt"]):
        xp.asarray(np.zeros(1), spec=runner.make_spec(wd))
    try:
        spec = runner.make_spec(wd, **job.get("spec", {}))
        vals = gen.cu_build(job["recipe"], gen.BuildEnv(spec, wd))
        out = vals[job["recipe"]["outputs"][0]]
        names = sorted(n for n in out._plan.dag.nodes())
        with open(os.path.join(outdir, f"job{j}.pkl"), "wb") as f:
            cloudpickle.dump(out, f)
        json.dump({"ok": True, "names": names, "name": out.name}, open(os.path.join(outdir, f"job{j}.json"), "w"))
    except Exception as e:
        json.dump({"ok": False, "err": repr(e)[:200]}, open(os.path.join(outdir, f"job{j}.json"), "w"))
"""


def shards(tier, seed):
    return [{"n": PER_SHARD[tier], "maxdim": 7, "depth": 3, "watchdog_s": TIMEOUT[tier] - 30} for _ in range(NSHARDS[tier])]


def set_counters(k):
    import cubed.core.array as ca
    import cubed.core.optimization as co
    import cubed.core.plan as cp
    import cubed.primitive.blockwise as pb
    import cubed.runtime.utils as ru

    ca.sym_counter = k
    cp.sym_counter = k
    pb.sym_counter = k
    co.sym_counter = k
    ru.sym_counter = k


def max_counter(names):
    m = 0
    for n in names:
        parts = str(n).rsplit("-", 1)
        if len(parts) == 2 and parts[1].isdigit():
            m = max(m, int(parts[1]))
    return m


def run_shard(spec, workdir):
    import cloudpickle

    import cubed
    import cubed.array_api as xp

    warnings.simplefilter("ignore")
    rng = random.Random(spec["seed"])
    res = _rc.new_result(("arrays_shipped", "alone", "combined_left", "combined_right", "shared_ancestry", "same_process_roundtrip",
                          "with_name_overlap", "disjoint_names", "declined"))
    jobs = []
    shadows = []
    for k in range(spec["n"]):
        g = gen.Gen(rng.getrandbits(48), maxdim=spec["maxdim"], depth=spec["depth"], allow_zero=False,
                    dtypes=["float64", "int64", "float64", "int32"], leaf_srcs=["asarray", "from_array"])
        g.maxblocks = 12
        recipe, np_vals = g.generate()
        recipe["outputs"] = recipe["outputs"][:1]
        v = np_vals[recipe["outputs"][0]]
        if not isinstance(v, np.ndarray) or v.dtype.kind not in "if" or v.size == 0:
            continue
        if any(n["op"] in ("qr", "svd", "svdvals", "random") for n in recipe["nodes"]):
            continue  # factors are unique only up to sign: not comparable value-for-value
        jobs.append({"recipe": recipe, "child_prebuilt": rng.choice([0, 0, 1, 3, 7])})
        shadows.append(np_vals)
    outdir = os.path.join(workdir, "ship")
    os.makedirs(outdir, exist_ok=True)
    jp = os.path.join(outdir, "jobs.json")
    with open(jp, "w") as f:
        json.dump(jobs, f)
    env = dict(os.environ, VERIF_SYSPATH=json.dumps([p for p in sys.path if p]))
    r = subprocess.run([sys.executable, "-c", CHILD, jp, outdir], capture_output=True, text=True, timeout=600, env=env)
    if r.returncode != 0:
        res["inconclusive"].append("child process failed: " + r.stderr[-400:])
        return res
    ex = runner.make_executor("single-threaded")
    for j, (job, np_vals) in enumerate(zip(jobs, shadows)):
        meta = json.load(open(os.path.join(outdir, f"job{j}.json")))
        if not meta["ok"]:
            res["counters"]["declined"] += 1
            continue
        recipe = job["recipe"]
        want = np.asarray(np_vals[recipe["outputs"][0]])
        ops = gen.recipe_ops(recipe)
        res["counters"]["arrays_shipped"] += 1
        child_max = max_counter(meta["names"])
        # how many arrays the receiver has already created
        mode = rng.choice(["overlap", "overlap", "disjoint"])
        k = rng.randint(0, max(1, child_max)) if mode == "overlap" else child_max + rng.randint(1, 30)
        wd = os.path.join(workdir, f"recv{j}")
        os.makedirs(wd, exist_ok=True)

        def V(kind, msg, facts_extra, case_extra):
            facts = {"ops": ops, "receiver_counter": k, "child_max_counter": child_max, "names_overlap": mode == "overlap"}
            facts.update(facts_extra)
            res["violations"].append({"property": PROPERTY, "kind": kind, "msg": msg, "facts": facts,
                                      "case": dict({"recipe": recipe, "child_prebuilt": job["child_prebuilt"], "receiver_counter": k}, **case_extra)})

        def collides():
            # names created in the receiver for this case are array-/op- numbers in (k, current counter]
            import cubed.core.array as ca
            import cubed.core.plan as cp

            for n in meta["names"]:
                parts = str(n).rsplit("-", 1)
                if len(parts) == 2 and parts[1].isdigit():
                    num = int(parts[1])
                    hi = ca.sym_counter if parts[0] == "array" else cp.sym_counter if parts[0] == "op" else None
                    if hi is not None and k < num <= hi:
                        return True
            return False

        def check(label, arr, expect, local_names=()):
            try:
                got = np.asarray(arr.compute(executor=ex))
            except Exception as e:
                V("combination-fails", f"{label}: {type(e).__name__}: {str(e)[:200]}", {"how": label, "exc": type(e).__name__,
                  "name_collision": collides()}, {"how": label})
                return
            res["evaluations"] += 1
            d = oracle.compare(expect, got)
            if d:
                V("wrong-value", f"{label}: {d}", {"how": label, "name_collision": collides()}, {"how": label})

        with open(os.path.join(outdir, f"job{j}.pkl"), "rb") as f:
            blob = f.read()
        set_counters(k)
        x = cloudpickle.loads(blob)
        res["counters"]["with_name_overlap" if mode == "overlap" else "disjoint_names"] += 1
        # (1) alone
        check("alone", x, want)
        res["counters"]["alone"] += 1
        # (2) same-process round trip of the deserialised array
        x2 = cloudpickle.loads(cloudpickle.dumps(x))
        check("same-process-roundtrip", x2, want)
        res["counters"]["same_process_roundtrip"] += 1
        # (3) combined with a locally built array of the same shape, both operand positions
        # the receiver's own Spec: equal by value to the shipped array's, but a distinct object
        spec_local = cubed.Spec(work_dir=x.spec.work_dir, allowed_mem=x.spec.allowed_mem, reserved_mem=x.spec.reserved_mem)
        ldata = (np.arange(want.size).reshape(want.shape) * 3 + 100).astype(want.dtype)
        try:
            y = xp.asarray(ldata, chunks=(tuple(max(1, s // 2) for s in want.shape) if want.ndim else "auto"), spec=spec_local) + 1
            lnames = list(y._plan.dag.nodes())
            check("x - local", xp.subtract(x, y), want - (ldata + 1), lnames)
            res["counters"]["combined_left"] += 1
            check("local - x", xp.subtract(y, x), (ldata + 1) - want, lnames)
            res["counters"]["combined_right"] += 1
            # (4) shared ancestry: derived locally from x itself, then combined with x
            z = xp.multiply(x, 2)
            check("2x - x (shared ancestry)", xp.subtract(z, x), want * 2 - want, list(z._plan.dag.nodes()))
            res["counters"]["shared_ancestry"] += 1
            res["nontrivial"].append(gen.rhash([recipe, k]))
        except Exception as e:
            # the specs are equal and the shapes/dtypes compatible: a refusal to combine is not 'behaving like any other array'
            _rc.bump(res["hist"]["exceptions"], f"build:{type(e).__name__}")
            V("combination-fails", f"building a combination with a local array raised {type(e).__name__}: {str(e)[:700]}",
              {"how": "build", "exc": type(e).__name__, "name_collision": collides()}, {"how": "build"})
        shutil.rmtree(wd, ignore_errors=True)
        if not res["samples"] and spec.get("shard", 0) == 0:
            res["samples"].append({"recipe": recipe, "receiver_counter": k, "child_max_counter": child_max})
    return res


def replay(rep, workdir):
    # re-run one shipped recipe with the recorded receiver counter
    import cloudpickle

    import cubed.array_api as xp

    res = _rc.new_result(())
    case = rep["case"]
    outdir = os.path.join(workdir, "ship")
    os.makedirs(outdir, exist_ok=True)
    jp = os.path.join(outdir, "jobs.json")
    json.dump([{"recipe": case["recipe"], "child_prebuilt": case.get("child_prebuilt", 0)}], open(jp, "w"))
    env = dict(os.environ, VERIF_SYSPATH=json.dumps([p for p in sys.path if p]))
    subprocess.run([sys.executable, "-c", CHILD, jp, outdir], capture_output=True, text=True, timeout=600, env=env)
    np_vals = gen.np_eval(case["recipe"])
    want = np.asarray(np_vals[case["recipe"]["outputs"][0]])
    set_counters(case["receiver_counter"])
    x = cloudpickle.load(open(os.path.join(outdir, "job0.pkl"), "rb"))
    ex = runner.make_executor("single-threaded")
    ldata = (np.arange(want.size).reshape(want.shape) * 3 + 100).astype(want.dtype)
    y = xp.asarray(ldata, chunks=tuple(max(1, s // 2) for s in want.shape) or None, spec=x.spec) + 1
    for label, arr, expect in [("alone", x, want), ("x - local", xp.subtract(x, y), want - (ldata + 1)), ("local - x", xp.subtract(y, x), (ldata + 1) - want)]:
        try:
            d = oracle.compare(expect, np.asarray(arr.compute(executor=ex)))
        except Exception as e:
            d = f"{type(e).__name__}: {e}"
        print("replay", label, d)
        if d:
            res["violations"].append({"property": PROPERTY, "kind": "wrong-value", "msg": f"{label}: {d}", "facts": {}, "case": case})
    res["evaluations"] = 3
    return res


def finalize(tier, merged):
    c = merged["counters"]
    return {
        "rule": RULE,
        "floors": [
            ("arrays built in a child process and shipped", c.get("arrays_shipped", 0), 300 if tier == "quick" else 2000),
            ("combinations of a deserialised and a local array computed", c.get("combined_left", 0) + c.get("combined_right", 0) + c.get("shared_ancestry", 0), 700 if tier == "quick" else 5000),
            ("receivers whose counters overlap the child's names", c.get("with_name_overlap", 0), 150 if tier == "quick" else 1000),
        ],
        "assumptions": ASSUMPTIONS,
    }
