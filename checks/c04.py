"""C04 - over-budget plans are refused before anything runs; fusion stays within budget.

Monitors: a wrapping executor's entry counter ("did execution start?"), the store tracer (any set /
delete) and a work-directory snapshot around compute / store / to_zarr, judged against the per-op
projected memory of the finalized plan; the admission boundary is probed at allowed = P-1, P, P+1
where P is the plan's own maximum projected memory under that very budget. An icontract
post-condition on the real fuse / fuse_multiple checks that a fused operation never reports less
projected memory than an operation it replaced.
"""
from __future__ import annotations

import os
import random
import shutil
import warnings

import numpy as np

from checks import _rc
from checks.c16 import files
from vlib import advexec, gen, runner, storetrace

PROPERTY = "C04"
LEVEL = "exploration"
TIMEOUT = {"quick": 1500, "thorough": 7200}
RULE = (
    "recipes from vlib.gen.Gen (fusion-relevant shapes, reductions, rechunks, multi-output ops) x optimiser {off, default, fuse_all (forced fusion)} x "
    "reserved_mem {0, small} x allowed_mem in {P-1, P, P+1} where P is the maximum projected memory of the plan finalized under "
    "that budget (iterated when the plan's shape depends on the budget) x entry point {compute, to_zarr, store} x executor. An "
    "evaluation = one boundary probe; non-trivial = probes on both sides of the boundary exist for the recipe and this one was "
    "judged; distinct by hash of (recipe, optimize, reserved, allowed)"
)
ASSUMPTIONS = [
    "a ValueError raised while the expression is built under a small budget (e.g. by the rechunk planner) is an up-front refusal, provided nothing was written",
    "'nothing written' = no store set/delete on any local or memory store and no new file under the work directory or the store target",
]
NSHARDS = {"quick": 16, "thorough": 16}
PER_SHARD = {"quick": 45, "thorough": 270}

_contract = {"fuse": 0, "fuse_multiple": 0, "installed": False, "findings": []}


def install_contracts():
    if _contract["installed"]:
        return
    import icontract

    import cubed.core.optimization as opt
    import cubed.primitive.blockwise as pb

    def post_fuse(primitive_op1, primitive_op2, result):
        _contract["fuse"] += 1
        ok = result.projected_mem >= max(primitive_op1.projected_mem, primitive_op2.projected_mem)
        if not ok:
            _contract["findings"].append(f"fuse: fused projected_mem {result.projected_mem} < max of replaced ops ({primitive_op1.projected_mem}, {primitive_op2.projected_mem})")
        return True  # recorded, never aborts what it observes

    orig_fm = pb.fuse_multiple

    def wm(primitive_op, *predecessor_primitive_ops):
        # hand-written post-condition wrapper (icontract does not bind *varargs the way this needs)
        result = orig_fm(primitive_op, *predecessor_primitive_ops)
        _contract["fuse_multiple"] += 1
        vals = [primitive_op.projected_mem] + [p.projected_mem for p in predecessor_primitive_ops if p is not None]
        if result.projected_mem < max(vals):
            _contract["findings"].append(f"fuse_multiple: fused projected_mem {result.projected_mem} < max of replaced ops {vals}")
        return result

    wf = icontract.ensure(post_fuse)(pb.fuse)
    pb.fuse = wf
    pb.fuse_multiple = wm
    opt.fuse = wf
    opt.fuse_multiple = wm
    _contract["installed"] = True


def shards(tier, seed):
    return [{"n": PER_SHARD[tier], "maxdim": 8 if tier == "quick" else 11, "depth": 4 if tier == "quick" else 6,
             "watchdog_s": TIMEOUT[tier] - 30} for _ in range(NSHARDS[tier])]


def okw(optimize):
    """compute/plan keyword arguments for an optimiser mode: False | True (default optimiser) | 'fuse_all'."""
    if optimize == "fuse_all":
        from cubed.core.optimization import fuse_all_optimize_dag

        return {"optimize_graph": True, "optimize_function": fuse_all_optimize_dag}
    return {"optimize_graph": bool(optimize)}


def build_and_plan(recipe, wd, allowed, reserved, optimize):
    """-> (outs, fp) ; raises whatever cubed raises"""
    import cubed

    spec = runner.make_spec(os.path.join(wd, "w"), allowed_mem=allowed, reserved_mem=reserved)
    env = gen.BuildEnv(spec, wd)
    with warnings.catch_warnings():
        warnings.simplefilter("ignore")
        vals = gen.cu_build(recipe, env)
        outs = [vals[i] for i in recipe["outputs"]]
        fp = cubed.plan(*outs, **okw(optimize))
    return outs, fp


def max_proj(fp):
    return max((d["primitive_op"].projected_mem for _, d in fp.dag.nodes(data=True) if d.get("primitive_op") is not None), default=0)


def probe(recipe, wd, allowed, reserved, optimize, entry, exname, res, facts_base):
    """One boundary probe. -> violations"""
    import cubed

    storetrace.install()
    os.makedirs(wd, exist_ok=True)
    viols = []
    case = {"recipe": recipe, "allowed": allowed, "reserved": reserved, "optimize": optimize, "entry": entry, "executor": exname}

    def V(kind, msg, **kw):
        viols.append({"kind": kind, "msg": f"{msg} (allowed_mem={allowed}, reserved_mem={reserved}, optimize={optimize}, entry={entry}, executor={exname})",
                      "facts": dict(facts_base, **kw), "case": case})

    f0 = files(wd)
    storetrace.TRACE.start(digest=False)
    built = None
    try:
        outs, fp = build_and_plan(recipe, wd, allowed, reserved, optimize)
        built = (outs, fp)
    except Exception as e:
        ev = storetrace.TRACE.stop()
        res["counters"]["refused_at_build"] += 1
        if storetrace.mutations(ev) or (files(wd) - f0):
            V("written-before-build-refusal", f"building raised {type(e).__name__} after storage was touched")
        return viols, None
    tgt = os.path.join(wd, "store-target.zarr")
    eager = entry.endswith("_eager")
    eager_src = outs[0]
    if eager:
        # the eager call plans internally: learn its P from a twin build stored lazily (elsewhere)
        try:
            outs_t, _ = build_and_plan(recipe, os.path.join(wd, "twin"), allowed, reserved, optimize)
            with warnings.catch_warnings():
                warnings.simplefilter("ignore")
                st = cubed.to_zarr(outs_t[0], os.path.join(wd, "twin", "t.zarr"), compute=False) if entry.startswith("to_zarr") else cubed.store([outs_t[0]], [os.path.join(wd, "twin", "t.zarr")], compute=False)[0]
                fp = cubed.plan(st, **okw(optimize))
                outs = [st]
        except Exception:
            storetrace.TRACE.stop()
            res["counters"]["refused_at_build"] += 1
            return viols, None
        f0 = files(wd)
    elif entry != "compute":
        # the plan that a store call executes is the plan of the stored array (lazy form), not of all outputs
        try:
            with warnings.catch_warnings():
                warnings.simplefilter("ignore")
                if entry == "to_zarr":
                    stored = [cubed.to_zarr(outs[0], tgt, compute=False)]
                else:
                    stored = list(cubed.store([outs[0]], [tgt], compute=False))
                outs = stored
                fp = cubed.plan(*outs, **okw(optimize))
        except Exception as e:
            ev = storetrace.TRACE.stop()
            res["counters"]["refused_at_build"] += 1
            if storetrace.mutations(ev) or (files(wd) - f0):
                V("written-before-build-refusal", f"lazy store raised {type(e).__name__} after storage was touched")
            return viols, None
    P = max_proj(fp)
    exceeds = P > allowed
    try:
        fp_un = cubed.plan(*outs, optimize_graph=False)
        P_un = max_proj(fp_un)
    except Exception:
        P_un = None
    if optimize is True and P_un is not None and P_un <= allowed and exceeds:
        V("optimisation-broke-admission", f"unoptimised plan fits ({P_un} <= {allowed}) but the default-optimised plan needs {P}", P=P, P_un=P_un)
    inner = runner.make_executor(exname)
    ex = advexec.Wrap(inner)
    err = None
    try:
        with warnings.catch_warnings():
            warnings.simplefilter("ignore")
            if entry == "compute":
                cubed.compute(*outs, executor=ex, **okw(optimize))
            elif entry == "to_zarr_eager":
                cubed.to_zarr(eager_src, tgt, executor=ex, **okw(optimize))
            elif entry == "store_eager":
                cubed.store([eager_src], [tgt], executor=ex, **okw(optimize))
            else:
                cubed.compute(*outs, executor=ex, _return_in_memory_array=False, **okw(optimize))
    except Exception as e:
        err = e
    ev = storetrace.TRACE.stop()
    muts = storetrace.mutations(ev)
    newf = files(wd) - f0
    res["evaluations"] += 1
    res["counters"]["probes"] += 1
    res["counters"]["probes_over_budget" if exceeds else "probes_within_budget"] += 1
    is_mem_err = isinstance(err, ValueError) and "exceeds allowed_mem" in str(err)
    if exceeds:
        if err is None:
            V("over-budget-plan-executed", f"an operation is projected to need {P} > allowed and the call completed without error", P=P)
        else:
            if ex.entries > 0:
                V("refused-after-execution-started", f"plan over budget (P={P}): {type(err).__name__} raised after the executor was entered", P=P)
            if muts:
                V("refused-after-writing", f"plan over budget (P={P}): {len(muts)} store mutation(s) before the error, e.g. {muts[0]['op']} {muts[0]['key']}", P=P)
            if newf:
                V("refused-after-creating-files", f"plan over budget (P={P}): new files {sorted(newf)[:3]}", P=P)
    else:
        if is_mem_err:
            V("within-budget-plan-refused", f"every operation fits (P={P} <= allowed) but the call raised the memory error: {str(err)[:120]}", P=P)
    return viols, (P, exceeds)


EXTRA = ("recipes_ending_in_repeated_argument", "probes_at_unoptimised_boundary", "probes", "probes_over_budget", "probes_within_budget", "refused_at_build", "recipes_with_both_sides", "declined",
         "fuse_contract_evaluations", "fuse_multiple_contract_evaluations")
GEN_KW = {"allow_zero": False, "weights": {"binary": 16, "unary": 8, "reduce": 14, "rechunk": 7, "multi": 4, "linalg": 6, "combo": 8, "index": 6}}


def run_shard(spec, workdir):
    install_contracts()
    rng = random.Random(spec["seed"])
    res = _rc.new_result(EXTRA)
    for k in range(spec["n"]):
        g = gen.Gen(rng.getrandbits(48), maxdim=spec["maxdim"], depth=spec["depth"], **GEN_KW)
        g.maxblocks = 16
        recipe, np_vals = g.generate()
        o = recipe["outputs"][0]
        if rng.random() < 0.3 and isinstance(np_vals.get(o), np.ndarray) and np_vals[o].dtype.kind in "iuf":
            # f(b, b): the same (fusable, single-consumer) array for two arguments of one operation
            recipe["nodes"].append({"in": [o, o], "op": rng.choice(["add", "multiply", "maximum"]), "p": {}})
            recipe["outputs"] = [len(recipe["nodes"]) - 1] + recipe["outputs"][1:]
            res["counters"]["recipes_ending_in_repeated_argument"] += 1
        res["counters"]["recipes"] += 1
        for o in gen.recipe_ops(recipe):
            _rc.bump(res["hist"]["ops"], o)
        optimize = rng.choice([True, True, False, "fuse_all"])
        reserved = rng.choice([0, 0, 1000, 50000])
        wd = os.path.join(workdir, f"r{k}")
        try:
            outs, fp = build_and_plan(recipe, os.path.join(wd, "ref"), "2GB", reserved, optimize)
        except Exception:
            res["counters"]["declined"] += 1
            shutil.rmtree(wd, ignore_errors=True)
            continue
        M = max_proj(fp)
        if fp.num_tasks > 150 or M <= reserved:
            shutil.rmtree(wd, ignore_errors=True)
            continue
        sides = set()
        facts = {"ops": gen.recipe_ops(recipe)}
        budgets = [M - 1, M, M + 1, max(reserved + 1, M // 2)]
        if optimize is True:
            # the budget at which the unoptimised plan just fits: optimisation must not lose admission there
            try:
                _, fp_un = build_and_plan(recipe, os.path.join(wd, "ref_un"), "2GB", reserved, False)
                M_un = max_proj(fp_un)
                if M_un > reserved and M_un not in budgets:
                    budgets.append(M_un)
                    res["counters"]["probes_at_unoptimised_boundary"] += 1
            except Exception:
                pass
        for j, allowed in enumerate(budgets):
            entry = rng.choice(["compute", "compute", "to_zarr", "store", "to_zarr_eager", "store_eager"])
            exname = rng.choice(["single-threaded", "single-threaded", "threads"])
            if rng.random() < 0.02:
                exname = "processes"
            del _contract["findings"][:]
            viols, info = probe(recipe, os.path.join(wd, f"p{j}"), allowed, reserved, optimize, entry, exname, res, facts)
            for f in _contract["findings"][:2]:
                viols.append({"kind": "fused-op-underreports-memory", "msg": f, "facts": dict(facts), "case": {"recipe": recipe, "allowed": allowed, "reserved": reserved, "optimize": optimize, "entry": entry, "executor": exname}})
            if info is not None:
                sides.add(info[1])
                # the plan's shape may depend on the budget: land exactly on its own boundary as well
                P2 = info[0]
                if P2 != M and j < 3:
                    v2, _ = probe(recipe, os.path.join(wd, f"p{j}b"), P2 - 1 if info[1] is False else P2, reserved, optimize, entry, exname, res, facts)
                    viols += v2
                res["nontrivial"].append(gen.rhash([recipe, optimize, reserved, allowed]))
            for v in viols:
                v["property"] = PROPERTY
            res["violations"].extend(viols)
        if len(sides) == 2:
            res["counters"]["recipes_with_both_sides"] += 1
        shutil.rmtree(wd, ignore_errors=True)
        if len(res["samples"]) < 1 and spec.get("shard", 0) == 0:
            res["samples"].append({"recipe": recipe, "optimize": optimize, "reserved": reserved, "boundary_P": M})
    res["counters"]["fuse_contract_evaluations"] = _contract["fuse"]
    res["counters"]["fuse_multiple_contract_evaluations"] = _contract["fuse_multiple"]
    return res


def replay(rep, workdir):
    install_contracts()
    res = _rc.new_result(EXTRA)
    c = rep["case"]
    del _contract["findings"][:]
    viols, info = probe(c["recipe"], os.path.join(workdir, "replay"), c["allowed"], c["reserved"], c["optimize"], c["entry"], c["executor"], res, {})
    for f in _contract["findings"][:2]:
        viols.append({"kind": "fused-op-underreports-memory", "msg": f, "facts": {}, "case": c})
    print("replay: P/exceeds", info)
    for v in viols:
        v["property"] = PROPERTY
    res["violations"] = viols
    return res


def finalize(tier, merged):
    c = merged["counters"]
    return {
        "rule": RULE,
        "floors": [
            ("boundary probes judged", c.get("probes", 0), 2000 if tier == "quick" else 12000),
            ("probes with an over-budget plan (must be refused up front)", c.get("probes_over_budget", 0), 600 if tier == "quick" else 3500),
            ("probes with a plan exactly at or under its budget (must run)", c.get("probes_within_budget", 0), 1000 if tier == "quick" else 6000),
            ("recipes probed on both sides of their boundary", c.get("recipes_with_both_sides", 0), 400 if tier == "quick" else 1700),
            ("icontract evaluations on fuse/fuse_multiple", c.get("fuse_contract_evaluations", 0) + c.get("fuse_multiple_contract_evaluations", 0), 300 if tier == "quick" else 2000),
        ],
        "assumptions": ASSUMPTIONS,
    }
