"""C13 - plan task counts match execution; callbacks see each event exactly once, in order.

Monitor: a recording Callback (vlib.events.Recorder) on real executors; oracle: the finalized plan
delivered with the compute-start event (per-op primitive_op.num_tasks, plan.num_tasks) and
len(list(pipeline.mappable)).
"""
from __future__ import annotations

from checks import _rc
from vlib import events, gen

PROPERTY = "C13"
LEVEL = "exploration"
TIMEOUT = {"quick": 1500, "thorough": 7200}
RULE = (
    "recipes from vlib.gen.Gen (multi-output ops, rechunks, fused ops, array creation) x executors "
    "{single-threaded, threads (batch_size in {None,1,3}, compute_arrays_in_parallel on/off), processes (sampled)} "
    "x optimize_graph; non-trivial = run completed with >= 2 operations; distinct by hash of (recipe, configuration)"
)
ASSUMPTIONS = ["callbacks are delivered in the client process (true for the three local executors)"]
NSHARDS = {"quick": 16, "thorough": 16}
PER_SHARD = {"quick": 100, "thorough": 600}


def shards(tier, seed):
    return [
        {"n": PER_SHARD[tier], "maxdim": 9 if tier == "quick" else 13, "depth": 4 if tier == "quick" else 6,
         "stores": 40 if tier == "quick" else 240, "watchdog_s": TIMEOUT[tier] - 30}
        for _ in range(NSHARDS[tier])
    ]


def choose_cfgs(rng):
    cfgs = [{"executor": "single-threaded", "optimize": rng.random() < 0.5}]
    opts = {"max_workers": rng.choice([1, 2, 4])}
    ckw = {}
    if rng.random() < 0.5:
        ckw["compute_arrays_in_parallel"] = True
    bs = rng.choice([None, 1, 3])
    if bs is not None:
        ckw["batch_size"] = bs
    cfgs.append({"executor": "threads", "optimize": rng.random() < 0.6, "executor_opts": opts, "compute_kw": ckw})
    if rng.random() < 0.04:
        cfgs.append({"executor": "processes", "optimize": rng.random() < 0.5, "compute_kw": dict(ckw)})
    return cfgs


_REC = {}


def per_run(recipe, cfg):
    r = events.Recorder()
    _REC["r"] = r
    return {"callbacks": [r]}


def judge(recipe, np_vals, cfg, rec, res, wd):
    r = _REC.get("r")
    if rec["exc"] is not None or r is None or r.plan is None:
        return []
    return judge_events(r, res, f"{_rc.cfg_name(cfg)} {cfg.get('compute_kw')}", {"config": cfg, "ops": gen.recipe_ops(recipe)})


def judge_events(r, res, label, base_facts):
    out = []
    ev = list(r.events)
    plan = r.plan
    res["counters"]["events"] += len(ev)

    def V(kind, msg, **facts):
        facts.update(base_facts)
        out.append({"kind": kind, "msg": f"{label}: {msg}", "facts": facts})

    kinds = [e[0] for e in ev]
    if kinds.count("compute_start") != 1 or kinds.count("compute_end") != 1:
        V("compute-events", f"compute_start x{kinds.count('compute_start')}, compute_end x{kinds.count('compute_end')}")
    elif kinds[0] != "compute_start" or kinds[-1] != "compute_end":
        V("compute-order", f"first event {kinds[0]}, last event {kinds[-1]}")
    planned = {}
    total = 0
    for n, d in plan.dag.nodes(data=True):
        op = d.get("primitive_op")
        if op is not None and d.get("pipeline") is not None:
            m = len(list(d["pipeline"].mappable))
            planned[n] = op.num_tasks
            total += op.num_tasks
            res["counters"]["ops_checked"] += 1
            if m != op.num_tasks:
                V("num_tasks-vs-mappable", f"op {n} ({d.get('op_name')}/{d.get('func_name')}) advertises num_tasks={op.num_tasks} but its task list has {m} items", op=n)
    if plan.num_tasks != total:
        V("plan-total", f"plan.num_tasks={plan.num_tasks} but sum over operations={total}")
    per = {}
    for i, (k, name, nt) in enumerate(ev):
        if name is None:
            continue
        p = per.setdefault(name, {"start": [], "end": [], "tasks": [], "n": 0})
        if k == "op_start":
            p["start"].append(i)
        elif k == "op_end":
            p["end"].append(i)
        else:
            p["tasks"].append(i)
            p["n"] += nt
    for n, want in planned.items():
        p = per.get(n)
        if p is None:
            V("op-not-run", f"planned operation {n} produced no events", op=n)
            continue
        if len(p["start"]) != 1 or len(p["end"]) != 1:
            V("op-events", f"operation {n}: {len(p['start'])} start / {len(p['end'])} end notifications", op=n)
            continue
        if p["n"] != want:
            V("task-count", f"operation {n}: plan says {want} tasks, task-end notifications account for {p['n']}", op=n, want=want, got=p["n"])
        if p["tasks"] and (min(p["tasks"]) < p["start"][0] or max(p["tasks"]) > p["end"][0]):
            V("task-outside-op", f"operation {n}: task-end notification outside its [start, end]", op=n)
        res["counters"]["task_events"] += len(p["tasks"])
    for n in per:
        if n not in planned:
            V("unplanned-op", f"events for operation {n} which is not in the plan", op=n)
    return out


def nontrivial(recipe, np_vals, cfg, rec):
    return rec["exc"] is None and (rec.get("plan") or {}).get("ops", 0) >= 2


EXTRA = ("events", "ops_checked", "task_events", "store_calls")


def run_shard(spec, workdir):
    import os
    import random
    import shutil

    from checks import c11

    res = _rc.run_cases(spec, workdir, prop=PROPERTY, judge=judge, extra_counters=EXTRA, choose_cfgs=choose_cfgs,
                        per_run=per_run, nontrivial=nontrivial)
    # store / to_zarr workloads: region stores (explicit output-block lists), stores into existing targets
    rng = random.Random(spec["seed"] + 31)
    scratch = c11._rc.new_result(c11.EXTRA)
    for k in range(spec.get("stores", 40)):
        c = c11.draw_call(rng)
        if c["executor"] == "seq":
            c["executor"] = "single-threaded"
        r = events.Recorder()
        wd = os.path.join(workdir, f"s{k}")
        _, obs = c11.run_call(c, wd, scratch, callbacks=[r])
        shutil.rmtree(wd, ignore_errors=True)
        res["evaluations"] += 1
        if obs is None or r.plan is None:
            continue
        res["counters"]["store_calls"] += 1
        res["nontrivial"].append(gen.rhash(["store", c]))
        viols = judge_events(r, res, f"store call region={c['region']} target={c['target']} {c['api']}", {"store_call": c})
        for v in viols:
            v["property"] = PROPERTY
            v["case"] = {"store_call": c}
        res["violations"].extend(viols)
    return res


def replay(rep, workdir):
    if "store_call" in rep["case"]:
        import os

        from checks import c11

        res = _rc.new_result(EXTRA)
        c = rep["case"]["store_call"]
        r = events.Recorder()
        _, obs = c11.run_call(c, os.path.join(workdir, "replay"), c11._rc.new_result(c11.EXTRA), callbacks=[r])
        res["evaluations"] = 1
        if obs is not None and r.plan is not None:
            for v in judge_events(r, res, "store call", {"store_call": c}):
                v["property"] = PROPERTY
                v["case"] = rep["case"]
                res["violations"].append(v)
        return res
    return _rc.replay_case(rep, workdir, prop=PROPERTY, judge=judge, extra_counters=EXTRA, per_run=per_run)


def finalize(tier, merged):
    c = merged["counters"]
    return {
        "rule": RULE,
        "floors": [
            ("operations whose advertised task count was checked", c.get("ops_checked", 0), 4000 if tier == "quick" else 25000),
            ("task-end notifications observed", c.get("task_events", 0), 15000 if tier == "quick" else 90000),
            ("store/to_zarr calls (incl. region stores) whose events were checked", c.get("store_calls", 0), 300 if tier == "quick" else 1750),
        ],
        "assumptions": ASSUMPTIONS,
    }
