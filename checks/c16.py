"""C16 - building, planning and visualising are lazy and free of side effects.

Monitors while public functions are called (not while anything is computed): the store tracer (no
set / delete / data-chunk get on any local or memory store), a directory snapshot of the work
directory (no new file), and an execution-attempt counter on FinalizedPlan.execute. Workload: every
recipe op of the generator (= the public array functions with generated arguments, and compositions),
then .plan() / cubed.plan / .visualize() / cubed.visualize, repr/HTML repr and array attributes;
plus a table of direct calls for public callables the recipes do not reach. The documented
execution triggers are asserted to *be* triggers.
"""
from __future__ import annotations

import os
import random
import shutil

import numpy as np

from checks import _rc
from vlib import gen, runner, storetrace

PROPERTY = "C16"
LEVEL = "exploration"
TIMEOUT = {"quick": 1500, "thorough": 7200}
RULE = (
    "every public callable of cubed, cubed.array_api, cubed.array_api.linalg, cubed.random and the Array class found by "
    "introspection is called with generated arguments (through the recipe generator or the direct-call table) under the "
    "side-effect monitors, followed by plan/visualize/repr/attribute access on the results. An evaluation = one monitored "
    "phase (build, plan, visualize, inspect) of one recipe or one direct call; non-trivial = the phase built or inspected at "
    "least one array backed by a lazy Zarr array (something that could have been created in storage); distinct by hash"
)
ASSUMPTIONS = [
    "documented triggers are excluded from the no-execution rule and asserted to execute: compute, eager store/to_zarr, __array__/__bool__/__int__/__float__/__index__/__complex__, indexing with a cubed array (incl. take with an array of indices)",
    "measure_reserved_mem is documented as running a trivial computation and is treated as a compute entry point",
    "the harness's own writes of input Zarr arrays are made with the tracer paused and live under <workdir>/inputs, which is excluded from the snapshot",
]
NSHARDS = {"quick": 16, "thorough": 16}
PER_SHARD = {"quick": 120, "thorough": 700}

EXEC = {"n": 0}
_patched = False


def install_exec_counter():
    global _patched
    if _patched:
        return
    from cubed.core import plan as planmod

    orig = planmod.FinalizedPlan.execute

    def execute(self, *a, **kw):
        EXEC["n"] += 1
        return orig(self, *a, **kw)

    planmod.FinalizedPlan.execute = execute
    _patched = True


def files(workdir, exclude=("inputs", "viz")):
    out = set()
    for dp, dn, fn in os.walk(workdir):
        rel = os.path.relpath(dp, workdir)
        if rel.split(os.sep)[0] in exclude:
            continue
        for f in fn:
            out.add(os.path.join(rel, f))
        for d in dn:
            if os.path.join(rel, d).lstrip("./").split(os.sep)[0] not in exclude:
                out.add(os.path.join(rel, d) + "/")
    return out


class Watch:
    """with Watch(workdir) as w: ...; w.findings -> list of side effects observed"""

    def __init__(self, workdir, allow_exec=False):
        self.workdir = workdir
        self.allow_exec = allow_exec

    def __enter__(self):
        self.f0 = files(self.workdir)
        self.e0 = EXEC["n"]
        storetrace.TRACE.start(digest=False)
        return self

    def __exit__(self, *a):
        ev = storetrace.TRACE.stop()
        self.events = ev
        self.findings = []
        self.execs = EXEC["n"] - self.e0
        if self.allow_exec:
            return False
        for e in ev:
            k = storetrace.classify_key(e["key"])[0] if e.get("key") else "other"
            if e["op"] in ("set", "set_if_not_exists", "delete", "delete_dir", "clear"):
                self.findings.append(f"store {e['op']} {e.get('key')} in {e['root']}")
            elif e["op"] == "get" and k == "data":
                self.findings.append(f"data-chunk get {e['key']} in {e['root']}")
        new = files(self.workdir) - self.f0
        for f in sorted(new)[:5]:
            self.findings.append(f"new file {f}")
        if self.execs:
            self.findings.append(f"{self.execs} execution attempt(s) (FinalizedPlan.execute entered)")
        return False


def shards(tier, seed):
    return [{"n": PER_SHARD[tier], "maxdim": 8, "depth": 4, "watchdog_s": TIMEOUT[tier] - 30} for _ in range(NSHARDS[tier])]


def public_surface():
    import cubed
    import cubed.array_api as xp
    import cubed.random

    names = set()
    import types

    def is_function(o):
        # functions only: dtype objects and classes are callable but construct no arrays
        return isinstance(o, (types.FunctionType, types.BuiltinFunctionType)) or (callable(o) and not isinstance(o, type) and not hasattr(o, "itemsize"))

    for n in cubed.__all__:
        if is_function(getattr(cubed, n, None)):
            names.add(n)
    for n in xp.__all__:
        if is_function(getattr(xp, n, None)):
            names.add(n)
    for n in dir(xp.linalg):
        o = getattr(xp.linalg, n)
        if not n.startswith("_") and isinstance(o, types.FunctionType) and o.__module__.startswith("cubed.array_api.linalg"):
            names.add("linalg." + n)
    for n in ("random", "integers"):
        names.add("random." + n)
    return names


# recipe op -> public name(s) it exercises
OP_PUBLIC = {
    "leaf": ["asarray", "from_array", "from_zarr"], "pick": [], "T": [], "index": [], "matrix_transpose": ["matrix_transpose"],
    "outer": ["linalg.outer"], "qr": ["linalg.qr", "linalg.tsqr", "linalg.map_blocks_multiple_outputs"],
    "svd": ["linalg.svd", "linalg.tsqr", "linalg.map_blocks_multiple_outputs"], "svdvals": ["linalg.svdvals"],
    "map_overlap_sum3": ["map_overlap"], "gufunc_mean_last": ["apply_gufunc"], "gufunc_outer_add": ["apply_gufunc"],
    "random": ["random.random"], "create:arange": ["arange"], "create:linspace": ["linspace"], "create:eye": ["eye"],
    "create:full": ["full"], "create:ones": ["ones"], "create:zeros": ["zeros"],
}
NOT_CONSTRUCTION = {
    # name -> why it is not subject to the no-execution rule / not a function building arrays
    "compute": "documented trigger", "measure_reserved_mem": "documented to run a trivial computation",
    "Callback": "class", "TaskEndEvent": "class", "Spec": "class", "Array": "class (methods exercised via recipes and the inspect phase)",
    "raise_if_computes": "test helper returning a config context manager", "bool": "dtype object", "config": "config object",
}


def direct_calls(spec, workdir):
    """(name, thunk, expects_execution)"""
    import cubed
    import cubed.array_api as xp
    import cubed.random
    import zarr

    a_np = np.arange(24.0).reshape(4, 6)
    a = xp.asarray(a_np, chunks=(2, 3), spec=spec)
    b = xp.negative(a) + 1
    v = xp.asarray(np.arange(6), chunks=2, spec=spec)
    tgt = os.path.join(workdir, "inputs", "pre-existing.zarr")
    with storetrace.paused():
        z = zarr.create_array(store=tgt, shape=(4, 6), dtype="f8", chunks=(2, 3), overwrite=True)
        z[...] = 7.0
    calls = [
        ("can_cast", lambda: xp.can_cast(xp.int8, xp.int64), False),
        ("finfo", lambda: xp.finfo(xp.float32), False),
        ("iinfo", lambda: xp.iinfo(xp.int16), False),
        ("isdtype", lambda: xp.isdtype(xp.float32, "real floating"), False),
        ("result_type", lambda: xp.result_type(a, xp.float32), False),
        ("broadcast_shapes", lambda: xp.broadcast_shapes((3, 1), (1, 4)), False),
        ("__array_namespace_info__", lambda: xp.__array_namespace_info__().default_dtypes(), False),
        ("empty", lambda: xp.empty((4, 5), chunks=(2, 2), spec=spec) + 1, False),
        ("empty_like", lambda: xp.empty_like(a), False),
        ("full_like", lambda: xp.full_like(a, 3), False),
        ("from_array", lambda: cubed.from_array(a_np, chunks=(2, 2), spec=spec) * 2, False),
        ("from_zarr", lambda: cubed.from_zarr(tgt, spec=spec) + 1, False),
        # inputs beyond the size up to which cubed embeds in-memory data in the plan (1 MB) and well beyond it
        ("from_array(1.5MB)", lambda: large_input_programs(cubed.from_array(np.ones((384, 512)), chunks=(128, 256), spec=spec), workdir, "fa1"), False),
        ("from_array(12MB,one-block)", lambda: large_input_programs(cubed.from_array(np.ones((1024, 1536)), chunks=(1024, 1536), spec=spec), workdir, "fa2"), False),
        ("asarray(0.98MB)", lambda: large_input_programs(xp.asarray(np.ones((350, 350)), chunks=(128, 256), spec=spec), workdir, "as1"), False),
        ("rechunk", lambda: cubed.rechunk(b, (4, 2)), False),
        ("map_blocks", lambda: cubed.map_blocks(lambda x: x * 2, b, dtype=b.dtype), False),
        ("random.random", lambda: cubed.random.random((5, 5), chunks=(2, 2), spec=spec) * 2, False),
        ("random.integers", lambda: cubed.random.integers((5, 5), chunks=(2, 2), spec=spec), False),
        ("to_zarr(compute=False)", lambda: cubed.to_zarr(b, os.path.join(workdir, "lazy-target.zarr"), compute=False), False),
        ("store(compute=False)", lambda: cubed.store([b], [os.path.join(workdir, "lazy-target2.zarr")], compute=False), False),
        ("store(compute=False,existing)", lambda: cubed.store([b], [zarr.open_array(tgt, mode='r+')], compute=False), False),
        ("nanmedian", lambda: cubed.nanmedian(b, axis=0), False),
        ("take(list)", lambda: xp.take(v, xp.asarray([0, 2], spec=spec)) if False else v[[0, 2]], False),
        ("plan", lambda: cubed.plan(b, xp.sum(b)), False),
        ("plan-of-irregular-rechunk", lambda: irregular_rechunk_plans(workdir), False),
        ("visualize", lambda: cubed.visualize(b, xp.sum(b), filename=os.path.join(workdir, "viz", "direct")), False),
        # documented triggers
        ("compute", lambda: cubed.compute(xp.sum(b)), True),
        ("Array.compute", lambda: b.compute(), True),
        ("to_zarr", lambda: cubed.to_zarr(b, os.path.join(workdir, "eager-target.zarr")), True),
        ("store", lambda: cubed.store([b], [os.path.join(workdir, "eager-target2.zarr")]), True),
        ("__array__", lambda: np.asarray(b), True),
        ("__bool__", lambda: bool(xp.any(b > 100)), True),
        ("__int__", lambda: int(xp.sum(v)), True),
        ("__float__", lambda: float(xp.sum(b)), True),
        ("__index__", lambda: [10, 20, 30][xp.asarray(1, spec=spec)], True),
        ("__complex__", lambda: complex(xp.sum(b)), True),
        ("index-with-cubed-array", lambda: v[xp.asarray([0, 2], spec=spec)], True),
        ("take-with-cubed-array", lambda: xp.take(v, xp.asarray([0, 2], spec=spec)), True),
    ]
    return calls


def large_input_programs(x, workdir, tag):
    """Build, plan and visualise a few programs over a large in-memory input."""
    import cubed
    import cubed.array_api as xp

    y = xp.sum(x * 2, axis=0)
    z = x.rechunk((x.shape[0], max(1, x.chunksize[1] // 2)))
    cubed.plan(y, z)
    cubed.visualize(y, z, filename=os.path.join(workdir, "viz", "large-" + tag))
    return y.plan().num_tasks, z.nchunks, x.nbytes


def irregular_rechunk_plans(workdir):
    """Rechunks whose copy stages use rectilinear (irregular) intermediate/target grids: build, plan,
    visualize. Asserts that such a grid really is in the plan, so the path is known to be reached."""
    import cubed
    import cubed.array_api as xp
    from cubed.storage.zarr import LazyZarrArray

    n_irregular = 0
    for (shape, sc, tc, am) in [((20, 25), (13, 23), (1, 20), 12000), ((32, 35), (2, 18), (8, 15), 8000),
                                ((30, 41), (14, 4), (4, 10), 5000), ((58, 21), (13, 6), (46, 4), 12000)]:
        spec = cubed.Spec(work_dir=os.path.join(workdir, "irr"), allowed_mem=am)
        a = xp.asarray(np.arange(shape[0] * shape[1], dtype="f8").reshape(shape), chunks=sc, spec=spec)
        b = a.rechunk(tc) + 1
        for og in (False, True):
            fp = b.plan(optimize_graph=og)
            n_irregular += sum(
                1 for _, d in fp.dag.nodes(data=True)
                if isinstance(d.get("target"), LazyZarrArray) and len(d["target"].chunks) > 0 and not isinstance(d["target"].chunks[0], int)
            )
            _ = (fp.num_tasks, fp.total_nchunks, fp.total_nbytes_written)
        os.makedirs(os.path.join(workdir, "viz"), exist_ok=True)
        b.visualize(filename=os.path.join(workdir, "viz", "irr"), optimize_graph=False, show_hidden=True)
    if n_irregular == 0:
        raise RuntimeError("no rectilinear intermediate grid was produced: path not reached")
    return n_irregular


def inspect_array(o, workdir, k):
    """Attribute access, reprs, plan and visualize of one array."""
    import cubed

    _ = (o.shape, o.dtype, o.chunks, o.chunksize, o.ndim, o.size, o.nbytes, o.npartitions, o.numblocks, o.itemsize,
         o.chunkmem, o.device, o.nchunks, repr(o), o.name)
    try:
        o._repr_html_()
    except ImportError:
        pass
    if o.ndim >= 1 and o.size > 0:
        _ = o.blocks[0]
    fp = o.plan()
    _ = (fp.num_tasks, fp.max_projected_mem, fp.total_nbytes_written, fp.num_arrays)
    fp2 = o.plan(optimize_graph=False)
    os.makedirs(os.path.join(workdir, "viz"), exist_ok=True)
    o.visualize(filename=os.path.join(workdir, "viz", f"v{k}"), optimize_graph=bool(k % 2), show_hidden=bool(k % 3 == 0))


def run_shard(spec, workdir):
    import warnings

    import cubed

    warnings.simplefilter("ignore")
    storetrace.install()
    install_exec_counter()
    rng = random.Random(spec["seed"])
    res = _rc.new_result(("phases", "lazy_arrays_built", "direct_calls", "triggers_confirmed", "allowed_trigger_executions", "declined"))
    res["sets"]["public_exercised"] = []

    def V(kind, msg, case, facts=None):
        res["violations"].append({"property": PROPERTY, "kind": kind, "msg": msg, "facts": facts or {}, "case": case})

    for k in range(spec["n"]):
        g = gen.Gen(rng.getrandbits(48), maxdim=spec["maxdim"], depth=spec["depth"])
        recipe, np_vals = g.generate()
        ops = gen.recipe_ops(recipe)
        for o in ops:
            _rc.bump(res["hist"]["ops"], o)
            res["sets"]["public_exercised"].extend(OP_PUBLIC.get(o, [o]))
        wd = os.path.join(workdir, f"r{k}")
        os.makedirs(wd, exist_ok=True)
        tight = "rechunk" in ops and rng.random() < 0.6
        cspec = runner.make_spec(wd, allowed_mem=rng.choice([3000, 5000, 8000, 20000])) if tight else runner.make_spec(wd)
        env = gen.BuildEnv(cspec, wd)
        has_take = "take" in ops
        case = {"recipe": recipe}
        # ---- build
        vals = None
        with Watch(wd, allow_exec=False) as w:
            try:
                vals = gen.cu_build(recipe, env)
            except Exception:
                res["counters"]["declined"] += 1
        res["evaluations"] += 1
        res["counters"]["phases"] += 1
        finds = w.findings
        if has_take:
            # take() with an array of indices is indexing with a cubed array: a documented trigger
            res["counters"]["allowed_trigger_executions"] += w.execs
            finds = []
        if finds:
            V("side-effect-while-building", f"building {ops}: {finds[:3]}", case, {"ops": ops, "findings": finds[:6], "phase": "build"})
        if vals is None:
            shutil.rmtree(wd, ignore_errors=True)
            continue
        from cubed.storage.zarr import LazyZarrArray

        arrs = [v for v in vals.values() if not isinstance(v, tuple)]
        nlazy = sum(1 for v in arrs if isinstance(v._zarray, LazyZarrArray))
        res["counters"]["lazy_arrays_built"] += nlazy
        if nlazy:
            res["nontrivial"].append(gen.rhash([recipe, "build"]))
        outs = [vals[i] for i in recipe["outputs"]]
        # ---- plan + visualize + inspect
        for phase in ("plan", "inspect"):
            with Watch(wd) as w:
                try:
                    if phase == "plan":
                        cubed.plan(*outs)
                        cubed.plan(*outs, optimize_graph=False)
                        os.makedirs(os.path.join(wd, "viz"), exist_ok=True)
                        cubed.visualize(*outs, filename=os.path.join(wd, "viz", "all"))
                    else:
                        for j, o in enumerate(outs[:2]):
                            inspect_array(o, wd, j)
                except Exception as e:
                    _rc.bump(res["hist"]["exceptions"], f"{phase}:{type(e).__name__}")
            res["evaluations"] += 1
            res["counters"]["phases"] += 1
            if nlazy:
                res["nontrivial"].append(gen.rhash([recipe, phase]))
            if w.findings:
                V(f"side-effect-while-{phase}", f"{phase} of {ops}: {w.findings[:3]}", case, {"ops": ops, "findings": w.findings[:6], "phase": phase})
        shutil.rmtree(wd, ignore_errors=True)
        if not res["samples"] and spec.get("shard", 0) == 0:
            res["samples"].append({"recipe": recipe, "phases": ["build", "plan", "inspect"]})
    # ---- direct calls and documented triggers
    wd = os.path.join(workdir, "direct")
    os.makedirs(os.path.join(wd, "inputs"), exist_ok=True)
    os.makedirs(os.path.join(wd, "viz"), exist_ok=True)
    cspec = runner.make_spec(wd)
    for name, thunk, expects in direct_calls(cspec, wd):
        with Watch(wd, allow_exec=expects) as w:
            err = None
            try:
                thunk()
            except Exception as e:
                err = e
        res["evaluations"] += 1
        res["counters"]["direct_calls"] += 1
        res["sets"]["public_exercised"].append(name.split("(")[0])
        if err is not None:
            res["inconclusive"].append(f"direct call {name} raised {type(err).__name__}: {str(err)[:150]}")
            continue
        res["nontrivial"].append(gen.rhash(["direct", name]))
        if expects:
            if w.execs >= 1:
                res["counters"]["triggers_confirmed"] += 1
            else:
                V("documented-trigger-did-not-execute", f"{name} did not enter FinalizedPlan.execute", {"direct": name})
        elif w.findings:
            V("side-effect-in-direct-call", f"{name}: {w.findings[:3]}", {"direct": name}, {"findings": w.findings[:6], "call": name})
    shutil.rmtree(wd, ignore_errors=True)
    return res


def replay(rep, workdir):
    spec = {"seed": 0, "n": 0, "maxdim": 8, "depth": 4}
    res = run_shard(spec, workdir)  # direct calls
    case = rep["case"]
    if "recipe" in case:
        import cubed

        wd = os.path.join(workdir, "replay")
        os.makedirs(wd, exist_ok=True)
        env = gen.BuildEnv(runner.make_spec(wd), wd)
        with Watch(wd) as w:
            vals = gen.cu_build(case["recipe"], env)
        print("build findings", w.findings)
        if w.findings and "take" not in gen.recipe_ops(case["recipe"]):
            res["violations"].append({"property": PROPERTY, "kind": "side-effect-while-building", "msg": str(w.findings[:3]), "facts": {}, "case": case})
        outs = [vals[i] for i in case["recipe"]["outputs"]]
        with Watch(wd) as w:
            cubed.plan(*outs)
            for j, o in enumerate(outs[:2]):
                inspect_array(o, wd, j)
        print("plan/inspect findings", w.findings)
        if w.findings:
            res["violations"].append({"property": PROPERTY, "kind": "side-effect-while-plan", "msg": str(w.findings[:3]), "facts": {}, "case": case})
    return res


def finalize(tier, merged):
    c = merged["counters"]
    surface = public_surface()
    exercised = set(merged["sets"].get("public_exercised", []))
    uncovered = sorted(n for n in surface if n not in exercised and n not in NOT_CONSTRUCTION)
    return {
        "rule": RULE,
        "floors": [
            ("monitored phases (build/plan/inspect)", c.get("phases", 0), 4000 if tier == "quick" else 25000),
            ("lazy (Zarr-backed) arrays built under the monitors", c.get("lazy_arrays_built", 0), 3000 if tier == "quick" else 17500),
            ("documented triggers confirmed to execute", c.get("triggers_confirmed", 0), 12 * 16 if tier == "quick" else 6 * 32),
            ("public callables never exercised (must be 0)", -len(uncovered), 0),
        ],
        "coverage_extra": {"public_surface_size": len(surface), "public_callables_not_exercised": uncovered,
                           "excluded_with_reason": NOT_CONSTRUCTION},
        "assumptions": ASSUMPTIONS,
    }
