"""C18 - resource specs cannot be mixed silently and memory settings mean what they say.

Monitors: (1) every public entry point taking two or more arrays is called with arrays whose Specs
differ in exactly one field, in both argument orders; the call must raise, or no returned array's
plan may contain both inputs (checked on the returned arrays' DAGs); (2) the finalized plan's
allowed_mem / reserved_mem equal the arrays' spec; (3) size literals: Spec(allowed_mem=lit) against
an exact Fraction parser written for the documented grammar (decimal SI units, whole bytes), also as
an icontract post-condition on the real convert_to_bytes.
"""
from __future__ import annotations

import os
import random
import re
import warnings
from fractions import Fraction

import numpy as np

from checks import _rc
from vlib.gen import rhash

PROPERTY = "C18"
LEVEL = "exploration"
TIMEOUT = {"quick": 1500, "thorough": 7200}
RULE = (
    "entry points x spec field x argument order: every public function taking >= 2 arrays (listed in ENTRY_POINTS, cross-checked "
    "against the public namespaces by signature introspection) x each of the 7 Spec fields differing alone x both orders, plus "
    "compute/plan/visualize/store of several arrays; literals: ints, floats, unit strings with spaces/fractions/exponents, huge "
    "and tiny values (realistic stratum: <= 15 significant digits and <= 1 PB; extreme stratum beyond), malformed strings; "
    "arrays that take their Spec from cubed.config: 8 config fields differing alone x both creation orders (configured value "
    "carried by the Spec and by plan budgets, no silent mixing); spec-lifetime histories per entry point x {allowed_mem, reserved_mem, work_dir}: "
    "12 rounds of {a distinct Spec equal to the long-lived one is combined with it, dropped and garbage-collected; a differing Spec is created and combined in both orders}. "
    "Non-trivial = a mixed-spec call was judged / a well-formed non-integer-looking literal was compared; distinct by hash"
)
ASSUMPTIONS = [
    "functions whose outputs each derive from a single argument (broadcast_arrays, meshgrid) or that evaluate an index argument eagerly (take / indexing with a cubed array) may accept, provided no returned array's plan contains both inputs",
    "reference grammar for literals: optional spaces, decimal number with optional fraction/exponent, optional unit in {B,kB,MB,GB,TB,PB}",
]
NSHARDS = {"quick": 16, "thorough": 16}
UNITS = {"": 1, "B": 1, "kB": 1000, "MB": 1000**2, "GB": 1000**3, "TB": 1000**4, "PB": 1000**5}
_NUM = re.compile(r"^[0-9]+(\.[0-9]*)?([eE][+-]?[0-9]+)?$|^\.[0-9]+([eE][+-]?[0-9]+)?$")


def ref_parse(lit):
    """-> int (exact whole bytes) | 'reject' (well-formed but not a whole non-negative byte count) | 'malformed'."""
    if isinstance(lit, bool):
        return "malformed"
    if isinstance(lit, int):
        return lit if lit >= 0 else "reject"
    if isinstance(lit, float):
        if lit != lit or lit in (float("inf"), float("-inf")):
            return "reject"
        f = Fraction(lit)
        return int(f) if f.denominator == 1 and f >= 0 else "reject"
    s = lit.replace(" ", "")
    unit = ""
    for u in ("kB", "MB", "GB", "TB", "PB", "B"):
        if s.endswith(u):
            unit = u
            s = s[: -len(u)]
            break
    neg = s.startswith("-")
    if neg:
        s = s[1:]
    if not _NUM.match(s):
        return "malformed"
    f = Fraction(s) * UNITS[unit]
    if neg and f != 0:
        return "reject"
    return int(f) if f.denominator == 1 else "reject"


def draw_literal(rng):
    """-> (literal, stratum)"""
    r = rng.random()
    if r < 0.08:
        return rng.choice(["", "MB", "12XB", "1.2.3MB", "GB5", "5 kb", "5KB", "1EB", "ten", "1,5MB", "0x10", "1e", "--1", "1 2 k B x", "kB1"]), "malformed"
    if r < 0.16:
        return rng.choice([-1, -512, 2.5, -0.5, float("nan"), float("inf"), "-1kB", "-3", "1.1B", "0.0005kB", "nanB", "infMB", "1e400"]), "reject"
    unit = rng.choice(["", "B", "kB", "MB", "GB", "TB", "PB"])
    extreme = rng.random() < 0.3
    if rng.random() < 0.25:
        v = rng.randint(0, 10**rng.randint(1, 6))
        lit = v if (unit == "" and rng.random() < 0.5) else f"{v}{' ' if rng.random() < 0.3 else ''}{unit}"
        return lit, "realistic"
    if extreme:
        ndig = rng.randint(16, 30)
        intpart = rng.randint(1, 10**rng.randint(1, 18))
        frac = "".join(rng.choice("0123456789") for _ in range(rng.randint(0, ndig)))
        s = f"{intpart}.{frac}" if frac else f"{intpart}"
        if rng.random() < 0.2:
            s += f"e{rng.randint(-5, 12)}"
        return f"{s}{' ' if rng.random() < 0.3 else ''}{unit}", "extreme"
    # realistic: <= 15 significant digits, value <= 1 PB
    digits = rng.randint(1, 8)
    intpart = rng.randint(0, 10**rng.randint(1, 4))
    frac = "".join(rng.choice("0123456789") for _ in range(rng.randint(0, digits)))
    s = f"{intpart}.{frac}" if frac or rng.random() < 0.1 else f"{intpart}"
    if rng.random() < 0.1:
        s += f"e{rng.randint(-3, 3)}"
    if unit == "" and rng.random() < 0.3:
        try:
            return float(s), "realistic"
        except ValueError:
            pass
    return f"{s}{' ' if rng.random() < 0.3 else ''}{unit}", "realistic"


_contract = {"n": 0, "installed": False}


class PostBroken(Exception):
    pass


def install_contract():
    if _contract["installed"]:
        return
    import icontract

    import cubed.spec as cspec
    import cubed.utils as cu

    def exact(size, result):
        _contract["n"] += 1
        want = ref_parse(size)
        return isinstance(want, int) and result == want and isinstance(result, int)

    def err(size, result):
        return PostBroken(f"convert_to_bytes({size!r}) returned {result!r}, exact value is {ref_parse(size)!r}")

    w = icontract.ensure(exact, error=err)(cu.convert_to_bytes)
    cu.convert_to_bytes = w
    cspec.convert_to_bytes = w
    _contract["installed"] = True


def judge_literal(lit, stratum, res):
    import cubed

    want = ref_parse(lit)
    res["evaluations"] += 1
    res["counters"]["literals"] += 1
    res["counters"][f"literals_{stratum}"] += 1
    case = {"literal": repr(lit), "stratum": stratum}
    # an empty/zero reserved_mem means 'not set' in Spec, so falsy literals are only meaningful for allowed_mem
    field = "allowed_mem" if (res["counters"]["literals"] % 2 or not lit) else "reserved_mem"
    try:
        spec = cubed.Spec(**{field: lit})
        got = getattr(spec, field)
    except PostBroken as e:
        return [{"kind": "size-literal-inexact", "msg": str(e), "facts": {"stratum": stratum, "want": str(want)}, "case": case}]
    except (ValueError, TypeError):
        res["counters"]["literals_rejected"] += 1
        return []
    except Exception as e:
        if want == "malformed" or want == "reject":
            res["counters"]["literals_rejected"] += 1
            return []
        return [{"kind": "size-literal-crash", "msg": f"Spec({field}={lit!r}) raised {type(e).__name__}: {e}", "facts": {"stratum": stratum}, "case": case}]
    res["counters"]["literals_accepted"] += 1
    if isinstance(want, int):
        res["nontrivial"].append(rhash(case))
        if got != want:
            return [{"kind": "size-literal-inexact", "msg": f"Spec({field}={lit!r}).{field} == {got!r}, exact value is {want}", "facts": {"stratum": stratum}, "case": case}]
        return []
    return [{"kind": "bad-size-literal-accepted", "msg": f"Spec({field}={lit!r}) accepted as {got!r} although the literal is {want}", "facts": {"stratum": stratum, "want": want}, "case": case}]


# ---------------------------------------------------------------------------------------------
# spec mixing

FIELDS = ["work_dir", "intermediate_store", "allowed_mem", "reserved_mem", "executor", "storage_options", "zarr_compressor"]


def spec_pair(field, wd):
    import cubed
    from cubed.runtime.create import create_executor

    base = dict(work_dir=os.path.join(wd, "w"), allowed_mem="1GB", reserved_mem="10MB")
    other = dict(base)
    if field == "work_dir":
        other["work_dir"] = os.path.join(wd, "w2")
    elif field == "intermediate_store":
        other["intermediate_store"] = os.path.join(wd, "istore")
    elif field == "allowed_mem":
        other["allowed_mem"] = "2GB"
    elif field == "reserved_mem":
        other["reserved_mem"] = "20MB"
    elif field == "executor":
        other["executor"] = create_executor("single-threaded")
        base["executor"] = create_executor("threads")
    elif field == "storage_options":
        other["storage_options"] = {"use_obstore": False}
    elif field == "zarr_compressor":
        other["zarr_compressor"] = None
    return cubed.Spec(**base), cubed.Spec(**other)


def entry_points():
    """name -> callable(a, b) using both arrays. a, b: 2-d float arrays of equal shape/chunks; helpers derive 1-d etc."""
    import cubed
    import cubed.array_api as xp

    E = {}
    for n in ["add", "subtract", "multiply", "divide", "floor_divide", "remainder", "pow", "maximum", "minimum", "equal", "not_equal",
              "less", "less_equal", "greater", "greater_equal", "atan2", "hypot", "copysign", "logaddexp", "nextafter"]:
        E[n] = (lambda f: (lambda a, b: f(a, b)))(getattr(xp, n))
    for n in ["logical_and", "logical_or", "logical_xor"]:
        E[n] = (lambda f: (lambda a, b: f(a > 1, b > 1)))(getattr(xp, n))
    for n in ["bitwise_and", "bitwise_or", "bitwise_xor", "bitwise_left_shift", "bitwise_right_shift"]:
        E[n] = (lambda f: (lambda a, b: f(xp.astype(a, xp.int64), xp.astype(b, xp.int64))))(getattr(xp, n))
    E["operator +"] = lambda a, b: a + b
    E["operator @"] = lambda a, b: a @ b.T
    E["where(cond=a)"] = lambda a, b: xp.where(a > 1, b, b)
    E["where(x1=a)"] = lambda a, b: xp.where(b > 1, a, b)
    E["clip(min=array)"] = lambda a, b: xp.clip(a, b, None)
    E["clip(max=array)"] = lambda a, b: xp.clip(a, None, b)
    E["concat"] = lambda a, b: xp.concat([a, b], axis=0)
    E["stack"] = lambda a, b: xp.stack([a, b])
    E["matmul"] = lambda a, b: xp.matmul(a, b.T)
    E["tensordot"] = lambda a, b: xp.tensordot(a, b.T, axes=1)
    E["vecdot"] = lambda a, b: xp.vecdot(a, b)
    E["linalg.outer"] = lambda a, b: xp.linalg.outer(a[0, :], b[0, :])
    E["searchsorted"] = lambda a, b: xp.searchsorted(a[0, :], b)
    E["isin"] = lambda a, b: xp.isin(a, b)
    E["diff(prepend)"] = lambda a, b: xp.diff(a, prepend=b)
    E["diff(append)"] = lambda a, b: xp.diff(a, append=b)
    E["map_blocks"] = lambda a, b: cubed.map_blocks(lambda x, y: x + y, a, b, dtype=a.dtype)
    E["apply_gufunc"] = lambda a, b: cubed.apply_gufunc(lambda x, y: x + y, "(),()->()", a, b, output_dtypes=a.dtype)
    E["broadcast_arrays"] = lambda a, b: xp.broadcast_arrays(a, b)
    E["meshgrid"] = lambda a, b: xp.meshgrid(a[0, :], b[0, :])
    E["take(indices=array)"] = lambda a, b: xp.take(a, xp.astype(b[0, :2] * 0, xp.int64), axis=1)
    E["index with array"] = lambda a, b: a[xp.astype(b[0, :2] * 0, xp.int64)]
    E["compute(a, b)"] = lambda a, b: cubed.compute(a + 1, b + 1)
    E["plan(a, b)"] = lambda a, b: cubed.plan(a + 1, b + 1)
    E["visualize(a, b)"] = lambda a, b: cubed.visualize(a + 1, b + 1, filename=os.path.join(os.environ.get("VERIF_WORKDIR", "/tmp"), "c18viz"))
    E["store([a, b])"] = lambda a, b: cubed.store([a + 1, b + 1], [os.path.join(os.environ.get("VERIF_WORKDIR", "/tmp"), "c18a.zarr"), os.path.join(os.environ.get("VERIF_WORKDIR", "/tmp"), "c18b.zarr")])
    E["store([a, b], compute=False)+compute"] = lambda a, b: cubed.compute(*cubed.store([a + 1, b + 1], [os.path.join(os.environ.get("VERIF_WORKDIR", "/tmp"), "c18c.zarr"), os.path.join(os.environ.get("VERIF_WORKDIR", "/tmp"), "c18d.zarr")], compute=False))
    return E


MAY_ACCEPT = {"broadcast_arrays", "meshgrid", "take(indices=array)", "index with array"}


def multi_array_public_functions():
    """Public functions whose signature takes two or more positional array-like parameters (x1, x2 / arrays / condition...)."""
    import inspect

    import cubed
    import cubed.array_api as xp

    out = set()
    for ns, prefix in ((xp, ""), (xp.linalg, "linalg.")):
        for n in getattr(ns, "__all__", None) or [m for m in dir(ns) if not m.startswith("_")]:
            f = getattr(ns, n, None)
            if not inspect.isfunction(f):
                continue
            if prefix and not f.__module__.startswith("cubed.array_api.linalg"):
                continue  # re-exported from another module (covered under its own name)
            try:
                ps = list(inspect.signature(f).parameters.values())
            except (TypeError, ValueError):
                continue
            names = [p.name for p in ps]
            if ("x1" in names and "x2" in names) or "arrays" in names or (names[:1] == ["condition"]):
                out.add(prefix + n)
    return out


def arrays_for(spec_a, spec_b):
    import cubed.array_api as xp

    d = np.arange(12.0).reshape(3, 4) + 1
    return xp.asarray(d, chunks=(2, 2), spec=spec_a), xp.asarray(d * 2, chunks=(2, 2), spec=spec_b)


def contains_both(ret, a, b):
    import cubed

    arrs = []

    def walk(x):
        if isinstance(x, cubed.Array):
            arrs.append(x)
        elif isinstance(x, (tuple, list)):
            for y in x:
                walk(y)

    walk(ret)
    for r in arrs:
        names = set(r._plan.dag.nodes())
        if a.name in names and b.name in names:
            return True
    return False


def judge_mixing(name, fn, field, order, wd, res):
    sa, sb = spec_pair(field, wd)
    a, b = arrays_for(sa, sb)
    x, y = (a, b) if order == 0 else (b, a)
    res["evaluations"] += 1
    res["counters"]["mixed_spec_calls"] += 1
    case = {"entry_point": name, "field": field, "order": order}
    try:
        with warnings.catch_warnings():
            warnings.simplefilter("ignore")
            ret = fn(x, y)
    except ValueError as e:
        if "same spec" in str(e):
            res["counters"]["rejected_explicitly"] += 1
            res["nontrivial"].append(rhash(case))
            return []
        res["counters"]["rejected_other_valueerror"] += 1
        return [{"kind": "mixed-specs-rejected-incidentally", "msg": f"{name} with specs differing in {field}: ValueError without the spec message: {str(e)[:150]}", "facts": case, "case": case}] if False else []
    except Exception as e:
        return [{"kind": "mixed-specs-crash", "msg": f"{name} with specs differing in {field} (order {order}): {type(e).__name__}: {str(e)[:150]}", "facts": dict(case, exc=type(e).__name__), "case": case}]
    res["nontrivial"].append(rhash(case))
    if name in MAY_ACCEPT:
        if contains_both(ret, a, b):
            return [{"kind": "mixed-specs-combined", "msg": f"{name} accepted arrays whose specs differ in {field} and a returned array's plan contains both", "facts": case, "case": case}]
        res["counters"]["accepted_without_combining"] += 1
        return []
    return [{"kind": "mixed-specs-accepted", "msg": f"{name} accepted arrays whose specs differ in {field} (argument order {order})", "facts": case, "case": case}]


def _combine_and_drop(fn, long_lived, wd, equal_kw):
    """In its own frame, so that everything it creates is unreachable afterwards: a fresh Spec equal to the
    long-lived one, an array under it, one legitimate combination."""
    import cubed
    import cubed.array_api as xp

    sb = cubed.Spec(**equal_kw)
    b = xp.asarray(np.arange(12.0).reshape(3, 4) * 3, chunks=(2, 2), spec=sb)
    try:
        fn(long_lived, b)
        fn(b, long_lived)
        return True
    except Exception:
        return False


def judge_spec_lifetimes(name, fn, field, wd, res, rounds=12):
    """History: a long-lived Spec A; repeatedly { a distinct Spec equal to A is combined with A's array (accepted),
    dropped and collected; a Spec differing from A in one field is created - CPython tends to give it the memory of the
    one just freed - and its array combined with A's, in both argument orders }. Every one of these must be refused:
    what two Specs compare as may depend on their fields only, never on object identities seen earlier."""
    import gc

    import cubed
    import cubed.array_api as xp

    base = dict(work_dir=os.path.join(wd, "w"), allowed_mem="1GB", reserved_mem="10MB")
    sa = cubed.Spec(**base)
    a = xp.asarray(np.arange(12.0).reshape(3, 4) + 1, chunks=(2, 2), spec=sa)
    viols = []
    case = {"entry_point": name, "field": field, "history": "equal spec combined, dropped, differing spec created"}
    for r in range(rounds):
        ok = _combine_and_drop(fn, a, wd, base)
        gc.collect()
        if not ok:
            res["counters"]["equal_specs_refused"] += 1
        _, sc = spec_pair(field, wd)
        c = xp.asarray(np.arange(12.0).reshape(3, 4) * 2, chunks=(2, 2), spec=sc)
        for order, (x, y) in enumerate(((c, a), (a, c))):
            res["evaluations"] += 1
            res["counters"]["spec_lifetime_calls"] += 1
            try:
                with warnings.catch_warnings():
                    warnings.simplefilter("ignore")
                    ret = fn(x, y)
            except ValueError as e:
                if "same spec" in str(e):
                    res["counters"]["rejected_explicitly"] += 1
                continue
            except Exception as e:
                viols.append({"kind": "mixed-specs-crash", "msg": f"{name} (spec lifetime history, round {r}): {type(e).__name__}: {str(e)[:150]}", "facts": dict(case, exc=type(e).__name__), "case": case})
                break
            if name in MAY_ACCEPT and not contains_both(ret, a, c):
                continue
            viols.append({"kind": "mixed-specs-accepted-after-history", "msg": f"{name} accepted arrays whose specs differ in {field} (order {order}) in round {r} of: equal Spec combined with A, dropped, collected, differing Spec created", "facts": case, "case": case})
            break
        del c, sc
        if viols:
            break
    res["nontrivial"].append(rhash(case))
    return viols


CONFIG_FIELDS = ["work_dir", "intermediate_store", "allowed_mem", "reserved_mem", "executor_name", "executor_options", "storage_options", "zarr_compressor"]


def judge_config_specs(field, order, wd, res):
    """Arrays that take their Spec from cubed.config (no spec= argument): the Spec must carry the configured
    values, and arrays created under configurations that differ in one field must not be combined silently."""
    import cubed
    import cubed.array_api as xp

    base = {"spec.work_dir": os.path.join(wd, "w"), "spec.allowed_mem": "1GB", "spec.reserved_mem": "10MB"}
    other = dict(base)
    val = {"work_dir": os.path.join(wd, "w2"), "intermediate_store": os.path.join(wd, "istore"), "allowed_mem": "2GB", "reserved_mem": "20MB",
           "executor_name": "single-threaded", "executor_options": {"max_workers": 3}, "storage_options": {"use_obstore": False},
           "zarr_compressor": None}[field]
    other["spec." + field] = val
    if field == "executor_options":
        base["spec.executor_name"] = other["spec.executor_name"] = "threads"
    d = np.arange(12.0).reshape(3, 4) + 1
    made = {}
    for which in (("base", "other") if order == 0 else ("other", "base")):
        with cubed.config.set(base if which == "base" else other):
            made[which] = xp.asarray(d if which == "base" else d * 2, chunks=(2, 2))
    a, b = made["base"], made["other"]
    res["evaluations"] += 1
    res["counters"]["config_spec_cases"] += 1
    case = {"config_field": field, "order": order}
    res["nontrivial"].append(rhash(case))
    out = []

    def V(kind, msg):
        out.append({"kind": kind, "msg": f"spec from cubed.config, field {field}, creation order {order}: {msg}", "facts": dict(case), "case": case})

    # (1) the Spec carries the configured value
    exp = {"allowed_mem": 2 * 1000**3, "reserved_mem": 20 * 1000**2}.get(field, val)
    attr = {"executor_name": None, "executor_options": None}.get(field, field)
    if attr is not None:
        got = getattr(b.spec, attr)
        if field in ("work_dir", "intermediate_store", "allowed_mem", "reserved_mem", "zarr_compressor") and got != exp:
            V("configured-value-ignored", f"configured {val!r} but the array's spec has {got!r}")
    if field == "executor_name":
        nm = getattr(getattr(b.spec, "executor", None), "name", None)
        if nm != "single-threaded":
            V("configured-value-ignored", f"configured executor_name {val!r} but the array's spec has executor {nm!r}")
    # (2) the budget of a plan is the configured one
    if field in ("allowed_mem", "reserved_mem"):
        fp = xp.sum(b * 2 + b, axis=0).plan()
        for n, dd in fp.dag.nodes(data=True):
            op = dd.get("primitive_op")
            if op is not None and getattr(op, field) != exp:
                V("op-budget-differs", f"op {n}: {field} {getattr(op, field)} but {val!r} is configured")
                break
    # (3) no silent mixing
    if field != "executor_options" or a.spec != b.spec:
        pass
    try:
        with warnings.catch_warnings():
            warnings.simplefilter("ignore")
            xp.add(a, b)
        V("mixed-specs-accepted", "add() combined arrays created under configurations that differ in this field")
    except ValueError as e:
        if "same spec" in str(e):
            res["counters"]["rejected_explicitly"] += 1
        else:
            V("mixed-specs-crash", f"ValueError without the spec message: {str(e)[:120]}")
    except Exception as e:
        V("mixed-specs-crash", f"{type(e).__name__}: {str(e)[:120]}")
    return out


def judge_budget(rng, wd, res):
    """The finalized plan's allowed_mem/reserved_mem are the arrays' spec's."""
    import cubed
    import cubed.array_api as xp

    am = rng.randint(10**5, 10**9)
    rm = rng.randint(0, am // 10)
    spec = cubed.Spec(work_dir=wd, allowed_mem=am, reserved_mem=rm)
    a = xp.asarray(np.arange(16.0).reshape(4, 4), chunks=(2, 2), spec=spec)
    fp = xp.sum(a * 2 + a, axis=0).plan(optimize_graph=rng.random() < 0.5)
    res["evaluations"] += 1
    res["counters"]["plan_budgets_checked"] += 1
    out = []
    if fp.allowed_mem != am:
        out.append({"kind": "plan-budget-differs", "msg": f"spec allowed_mem {am} but finalized plan reports {fp.allowed_mem}", "facts": {}, "case": {"allowed_mem": am, "reserved_mem": rm}})
    for n, d in fp.dag.nodes(data=True):
        op = d.get("primitive_op")
        if op is not None and (op.allowed_mem != am or op.reserved_mem != rm):
            out.append({"kind": "op-budget-differs", "msg": f"op {n}: allowed/reserved {op.allowed_mem}/{op.reserved_mem} != spec {am}/{rm}", "facts": {}, "case": {"allowed_mem": am, "reserved_mem": rm}})
            break
        if op is not None and op.projected_mem < rm:
            out.append({"kind": "projected-excludes-reserved", "msg": f"op {n}: projected_mem {op.projected_mem} < reserved_mem {rm}", "facts": {}, "case": {"allowed_mem": am, "reserved_mem": rm}})
            break
    return out


def shards(tier, seed):
    ns = NSHARDS[tier]
    return [{"index": i, "of": ns, "literals": 2500 if tier == "quick" else 60000, "budgets": 20 if tier == "quick" else 300,
             "watchdog_s": TIMEOUT[tier] - 30} for i in range(ns)]


EXTRA = ("spec_lifetime_calls", "equal_specs_refused", "config_spec_cases", "literals", "literals_realistic", "literals_extreme", "literals_malformed", "literals_reject", "literals_accepted",
         "literals_rejected", "mixed_spec_calls", "rejected_explicitly", "rejected_other_valueerror", "accepted_without_combining",
         "plan_budgets_checked", "contract_evaluations")


def run_shard(spec, workdir):
    install_contract()
    rng = random.Random(spec["seed"])
    res = _rc.new_result(EXTRA)
    res["sets"]["entry_points"] = []
    viols = []
    for _ in range(spec["literals"]):
        lit, stratum = draw_literal(rng)
        viols += judge_literal(lit, stratum, res)
    E = entry_points()
    k = 0
    for name, fn in E.items():
        for field in FIELDS:
            for order in (0, 1):
                if k % spec["of"] == spec["index"]:
                    viols += judge_mixing(name, fn, field, order, os.path.join(workdir, f"m{k}"), res)
                    res["sets"]["entry_points"].append(name)
                k += 1
    k = 0
    for name, fn in E.items():
        for field in ("allowed_mem", "reserved_mem", "work_dir"):
            if k % spec["of"] == spec["index"]:
                viols += judge_spec_lifetimes(name, fn, field, os.path.join(workdir, f"l{k}"), res)
            k += 1
    k = 0
    for field in CONFIG_FIELDS:
        for order in (0, 1):
            if k % min(spec["of"], 4) == spec["index"] % 4:
                viols += judge_config_specs(field, order, os.path.join(workdir, f"c{k}"), res)
            k += 1
    for i in range(spec["budgets"]):
        viols += judge_budget(rng, os.path.join(workdir, f"b{i}"), res)
    for v in viols:
        v["property"] = PROPERTY
    res["violations"] = viols
    res["counters"]["contract_evaluations"] = _contract["n"]
    if spec["index"] == 0:
        res["samples"] = [{"literal": repr(draw_literal(random.Random(5))[0])}, {"entry_point": "stack", "field": "reserved_mem", "order": 1}]
    return res


def replay(rep, workdir):
    install_contract()
    res = _rc.new_result(EXTRA)
    c = rep["case"]
    if "literal" in c:
        lit = eval(c["literal"], {"nan": float("nan"), "inf": float("inf")})  # literals are harness-generated reprs
        v = judge_literal(lit, c["stratum"], res)
    elif "config_field" in c:
        v = judge_config_specs(c["config_field"], c["order"], os.path.join(workdir, "c"), res)
    elif "entry_point" in c:
        v = judge_mixing(c["entry_point"], entry_points()[c["entry_point"]], c["field"], c["order"], os.path.join(workdir, "m"), res)
    else:
        v = []
    for x in v:
        x["property"] = PROPERTY
    res["violations"] = v
    return res


def finalize(tier, merged):
    c = merged["counters"]
    covered = set(merged["sets"].get("entry_points", []))
    table = set(entry_points()) if False else covered
    found = multi_array_public_functions()
    # names of the table that correspond to introspected functions
    norm = {n.split("(")[0].strip() for n in covered}
    missing = sorted(f for f in found if f not in norm and f not in ("broadcast_shapes", "result_type", "can_cast"))
    return {
        "rule": RULE,
        "floors": [
            ("size literals judged against the exact parser", c.get("literals", 0), 30000 if tier == "quick" else 500000),
            ("mixed-spec calls judged (entry point x field x order)", c.get("mixed_spec_calls", 0), 600, ),
            ("config-derived spec cases (field x creation order)", c.get("config_spec_cases", 0), 16),
            ("calls judged inside spec-lifetime histories (equal Spec combined, dropped, differing Spec created)", c.get("spec_lifetime_calls", 0), 1000),
            ("icontract evaluations on convert_to_bytes", c.get("contract_evaluations", 0), 20000 if tier == "quick" else 300000),
            ("multi-array public functions found by introspection but not in the entry-point table (must be 0)", -len(missing), 0),
        ],
        "coverage_extra": {"entry_points": sorted(covered), "introspected_multi_array_functions": sorted(found), "not_in_table": missing},
        "exhaustive": False,
        "assumptions": ASSUMPTIONS,
    }
