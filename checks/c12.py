"""C12 - declared shape/dtype/chunks are truthful; written blocks match their chunk region.

Monitors: (1) metadata comparison - what a lazy array declares before compute against the computed
result and against the backing Zarr array's metadata read back from storage; (2) the block-write
hook (vlib.blockshape) on zarr.Array.__setitem__: for every block any task writes, the shape of the
value must equal the shape of the region it is written into (Zarr broadcasts silently otherwise).
"""
from __future__ import annotations

import numpy as np

from checks import _rc
from vlib import gen

PROPERTY = "C12"
LEVEL = "exploration"
TIMEOUT = {"quick": 1500, "thorough": 7200}
RULE = (
    "recipes from vlib.gen.Gen, each run unoptimised (every intermediate is written) and optimised (fused ops) on "
    "single-threaded/threads executors; every block write of every task is observed. Non-trivial = the run "
    "completed and at least one multi-block array was written; distinct by hash of (recipe, configuration)"
    " Plus a bounded-exhaustive parameter sweep: single-operation recipes enumerating the discrete parameters of the public functions for 1-3 dimensions (every ordered choice of tensordot contraction axes; per-dimension {all, reversed, strided, reversed+strided, integer} indexing with a new axis at every position; all axis permutations, moveaxis pairs, flip/reduction axis subsets x keepdims, roll, arg-reductions, scans, diff, repeat, take, unstack, concat/stack/expand_dims positions, pad widths, tril/triu offsets, vecdot axes, ordered block selections through Array.blocks: 1032 cases; reshape splitting or merging dimensions of sizes 6-12 for every chunking), geometry drawn at random, each run optimised and unoptimised."
)
ASSUMPTIONS = [
    "all block writes go through zarr.Array.__setitem__ (apply_blockwise and ZarrV3ArrayGroup.set_basic_selection do)",
    "under the processes executor block writes happen in worker processes and are not observed by this hook; it is run on single-threaded and threads",
]
NSHARDS = {"quick": 16, "thorough": 16}
PER_SHARD = {"quick": 100, "thorough": 600}


def shards(tier, seed):
    return [
        {"n": PER_SHARD[tier], "maxdim": 9 if tier == "quick" else 13, "depth": 4 if tier == "quick" else 6,
         "watchdog_s": TIMEOUT[tier] - 30, "sweep_of": 16 if tier == "quick" else 4}
        for _ in range(NSHARDS[tier])
    ]


def choose_cfgs(rng):
    return [
        {"executor": rng.choice(["single-threaded", "threads"]), "optimize": False},
        {"executor": rng.choice(["single-threaded", "threads"]), "optimize": True},
    ]


def _stored_meta(arr):
    """Shape/dtype/chunk grid of the Zarr array backing a cubed array, read from storage."""
    from cubed.storage.zarr import open_if_lazy_zarr_array

    z = open_if_lazy_zarr_array(arr._zarray)
    if isinstance(z, dict):  # structured group
        return None
    try:
        ch = tuple(z.chunks)
        grid = tuple(
            tuple([c] * (d // c) + ([d % c] if d % c else [])) if d > 0 else (0,) for d, c in zip(z.shape, ch)
        )
    except NotImplementedError:
        grid = tuple(tuple(c) for c in z.read_chunk_sizes)
    return {"shape": tuple(z.shape), "dtype": str(z.dtype), "grid": grid}


def judge(recipe, np_vals, cfg, rec, res, wd):
    out = []
    ops = gen.recipe_ops(recipe)
    # (2) block writes - judged even if the run failed later
    for w in rec.get("blockwrites", []) or []:
        if "monitor_error" in w:
            res["inconclusive"].append("block monitor error: " + w["monitor_error"])
            continue
        res["counters"]["block_writes"] += 1
        if tuple(w["value"]) != tuple(w["region"]):
            opn = w["task"][0] if w.get("task") else None
            out.append({
                "kind": "block-shape-mismatch",
                "msg": f"task {w.get('task')} wrote a value of shape {tuple(w['value'])} into region of shape {tuple(w['region'])} "
                       f"of array {w['path']} (shape {tuple(w['shape'])}, grid {w['grid']}) - silently broadcast",
                "facts": {"write": w, "ops": ops, "op_node": opn},
            })
    if rec["exc"] is not None or rec["results"] is None:
        return out
    # (1) metadata
    for k, (decl, got) in enumerate(zip(rec["declared"], rec["results"])):
        res["counters"]["arrays_compared"] += 1
        node = recipe["nodes"][recipe["outputs"][k]]
        if tuple(decl["shape"]) != tuple(got.shape) or np.dtype(decl["dtype"]) != got.dtype:
            out.append({
                "kind": "declared-vs-computed",
                "msg": f"declared shape/dtype {decl['shape']}/{decl['dtype']} but computed {got.shape}/{got.dtype} (op {node['op']})",
                "facts": {"declared": decl, "computed": {"shape": list(got.shape), "dtype": str(got.dtype)}, "op": node["op"], "ops": ops},
            })
        if tuple(sum(c) for c in decl["chunks"]) != tuple(decl["shape"]):
            out.append({"kind": "chunks-do-not-sum-to-shape", "msg": f"{decl}", "facts": {"declared": decl, "op": node["op"], "ops": ops}})
    for k, arr in enumerate(rec.get("_outs", [])):
        decl = rec["declared"][k]
        if int(np.prod(decl["shape"])) == 0:
            continue
        try:
            meta = _stored_meta(arr)
        except Exception as e:
            out.append({"kind": "backing-array-unreadable", "msg": repr(e)[:300], "facts": {"declared": decl, "ops": ops}})
            continue
        if meta is None:
            continue
        res["counters"]["backing_arrays_compared"] += 1
        dgrid = tuple(tuple(c) for c in decl["chunks"])
        if meta["shape"] != tuple(decl["shape"]) or np.dtype(meta["dtype"]) != np.dtype(decl["dtype"]) or meta["grid"] != dgrid:
            out.append({
                "kind": "declared-vs-stored",
                "msg": f"declared {decl['shape']}/{decl['dtype']}/{dgrid} but backing Zarr array is {meta}",
                "facts": {"declared": decl, "stored": meta, "op": recipe["nodes"][recipe["outputs"][k]]["op"], "ops": ops},
            })
    return out


EXTRA = ("block_writes", "arrays_compared", "backing_arrays_compared")


def run_shard(spec, workdir):
    # budget split: odd shards never generate zero-length dimensions (open finding KF-zero-size-chunk-arith)
    allow_zero = spec.get("shard", 0) % 2 == 0
    res = _rc.run_cases(spec, workdir, prop=PROPERTY, judge=judge, extra_counters=EXTRA, monitors=("block",),
                        choose_cfgs=choose_cfgs, run_kw={"keep_vals": True}, gen_kw={"allow_zero": allow_zero})
    res["counters"]["runs_avoiding_open_findings" if not allow_zero else "runs_free_to_hit_open_findings"] = res["counters"]["runs"]
    return res


def replay(rep, workdir):
    return _rc.replay_case(rep, workdir, prop=PROPERTY, judge=judge, extra_counters=EXTRA, monitors=("block",),
                           run_kw={"keep_vals": True})


def finalize(tier, merged):
    c = merged["counters"]
    return {
        "rule": RULE,
        "floors": [
            ("parameter-sweep cases run (of 1032 enumerated)", c.get("param_sweep_cases", 0), 850),
            ("block writes observed", c.get("block_writes", 0), 20000 if tier == "quick" else 125000),
            ("arrays whose declared metadata was compared with the stored array", c.get("backing_arrays_compared", 0), 1000 if tier == "quick" else 6000),
        ],
        "assumptions": ASSUMPTIONS,
    }
