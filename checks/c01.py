"""C01 - computed values equal NumPy's.

Deciding monitor: result comparison against the NumPy shadow interpreter, over generated recipes,
on the real executors, optimisation on/off. Exceptions are not C01 violations (cubed may decline).
"""
from __future__ import annotations

import os
import random
import shutil
import time

import numpy as np

from vlib import gen, runner

PROPERTY = "C01"
LEVEL = "exploration"
TIMEOUT = {"quick": 900, "thorough": 5400}
RULE = (
    "recipes drawn by vlib.gen.Gen (random DAGs over the public function table; shapes 0-4 dims, "
    "sizes 0-9 (quick) / 0-13 (thorough), every regular chunking, 13 dtypes, sharing, 1-3 outputs); "
    "each recipe evaluated by NumPy and by cubed under >=2 configurations of executor x optimize_graph. "
    "A case (recipe, configuration) is non-trivial when some leaf has more than one block and cubed "
    "returned values that were compared; distinct = distinct hash of (recipe, configuration)."
)
ASSUMPTIONS = [
    "NumPy 2.x evaluation of the recipe is the reference; candidates NumPy itself rejects are out of scope",
    "float results compared with dtype-scaled tolerance (exact for integer/bool results)",
    "the processes executor is sampled on a subset of recipes because of its start-up cost",
]

NSHARDS = {"quick": 16, "thorough": 32}
PER_SHARD = {"quick": 110, "thorough": 1800}
CONFIGS = [
    {"executor": "single-threaded", "optimize": True},
    {"executor": "single-threaded", "optimize": False},
    {"executor": "threads", "optimize": True},
    {"executor": "threads", "optimize": False},
]


def shards(tier, seed):
    return [{"n": PER_SHARD[tier], "maxdim": 9 if tier == "quick" else 13, "depth": 4 if tier == "quick" else 7,
             "watchdog_s": TIMEOUT[tier] - 30} for _ in range(NSHARDS[tier])]


def evaluate_case(recipe, np_vals, cfg, workdir, res, case_id):
    """Runs one (recipe, cfg); records observations into res. Returns list of violations."""
    rec = runner.run_recipe(recipe, cfg, workdir, monitors=())
    res["counters"]["runs"] += 1
    cfgname = f"{cfg['executor']}/{'opt' if cfg.get('optimize', True) else 'noopt'}"
    res["hist"]["config"][cfgname] = res["hist"]["config"].get(cfgname, 0) + 1
    viols = []
    if rec["exc"] is not None:
        res["counters"]["declined_or_failed"] += 1
        k = f"{rec['phase']}:{rec['exc']['type']}"
        res["hist"]["exceptions"][k] = res["hist"]["exceptions"].get(k, 0) + 1
        return viols, rec
    diffs = runner.check_values(recipe, np_vals, rec)
    res["counters"]["outputs_compared"] += len(rec["results"])
    res["counters"]["elements_compared"] += int(sum(np.asarray(r).size for r in rec["results"]))
    # decompositions
    for i, node in enumerate(recipe["nodes"]):
        pass
    if diffs:
        loc = None
        try:
            loc = runner.localise(recipe, np_vals, cfg, os.path.join(workdir, "loc"))
        except Exception as e:  # localisation is best-effort
            loc = {"error": repr(e)[:200]}
        viols.append(
            {
                "property": PROPERTY,
                "kind": "value-mismatch",
                "msg": f"{cfgname}: {diffs[0]['diff']} (output node {diffs[0]['output']} op {diffs[0]['op']}); culprit={loc}",
                "facts": {"culprit": loc, "config": cfg, "diffs": diffs[:3], "ops": gen.recipe_ops(recipe)},
                "case": {"recipe": recipe, "cfg": cfg},
            }
        )
    return viols, rec


def new_result():
    return {
        "evaluations": 0,
        "nontrivial": [],
        "counters": {"runs": 0, "declined_or_failed": 0, "outputs_compared": 0, "elements_compared": 0,
                     "numpy_rejected_candidates": 0, "recipes": 0},
        "hist": {"ops": {}, "config": {}, "exceptions": {}},
        "samples": [],
        "violations": [],
        "maxes": {},
        "sets": {},
    }


def run_shard(spec, workdir):
    rng = random.Random(spec["seed"])
    res = new_result()
    t0 = time.time()
    for k in range(spec["n"]):
        g = gen.Gen(rng.getrandbits(48), maxdim=spec["maxdim"], depth=spec["depth"])
        recipe, np_vals = g.generate()
        res["counters"]["numpy_rejected_candidates"] += g.rejected
        res["counters"]["recipes"] += 1
        for o in gen.recipe_ops(recipe):
            res["hist"]["ops"][o] = res["hist"]["ops"].get(o, 0) + 1
        cfgs = [CONFIGS[0], rng.choice(CONFIGS[1:])]
        if rng.random() < 0.04:
            cfgs.append({"executor": "processes", "optimize": rng.random() < 0.5})
        for cfg in cfgs:
            wd = os.path.join(workdir, f"r{k}")
            viols, rec = evaluate_case(recipe, np_vals, cfg, wd, res, k)
            shutil.rmtree(wd, ignore_errors=True)
            res["evaluations"] += 1
            if rec["results"] is not None and gen.is_nontrivial(recipe, np_vals):
                res["nontrivial"].append(gen.rhash([recipe, cfg]))
            res["violations"].extend(viols)
        if k < 2 and spec.get("shard", 0) == 0:
            res["samples"].append({"recipe": recipe, "configs": cfgs})
    return res


def replay(rep, workdir):
    res = new_result()
    case = rep["case"]
    np_vals = gen.np_eval(case["recipe"])
    viols, rec = evaluate_case(case["recipe"], np_vals, case["cfg"], os.path.join(workdir, "replay"), res, 0)
    res["evaluations"] = 1
    res["violations"] = viols
    return res


def finalize(tier, merged):
    c = merged["counters"]
    floor = 800 if tier == "quick" else 20000
    from vlib import optable

    missing = sorted(set(optable.expected_ops()) - set(merged["hist"].get("ops", {})))
    return {
        "rule": RULE,
        "floors": [("outputs compared with NumPy", c.get("outputs_compared", 0), floor),
                   ("distinct public functions exercised", len(merged["hist"].get("ops", {})), 100)],
        "coverage_extra": {"functions_never_exercised_this_run": missing},
        "assumptions": ASSUMPTIONS,
    }
