"""C01 - computed values equal NumPy's.

Deciding monitor: result comparison against the NumPy shadow interpreter, over generated recipes,
on the real executors, optimisation on/off. Exceptions are not C01 violations (cubed may decline;
type and phase of the exception are C17's business).
"""
from __future__ import annotations

import os

import numpy as np

from checks import _rc
from vlib import gen, optable, runner

PROPERTY = "C01"
LEVEL = "exploration"
TIMEOUT = {"quick": 1500, "thorough": 7200}
RULE = (
    "recipes drawn by vlib.gen.Gen (random DAGs over the public function table; shapes 0-4 dims, "
    "sizes 0-9 (quick) / 0-13 (thorough), every regular chunking, 13 dtypes, sharing, 1-3 outputs); "
    "each recipe evaluated by NumPy and by cubed under >=2 configurations of executor x optimize_graph. "
    "A case (recipe, configuration) is non-trivial when some leaf has more than one block and cubed "
    "returned values that were compared; distinct = distinct hash of (recipe, configuration)."
    " Plus a bounded-exhaustive parameter sweep: single-operation recipes enumerating the discrete parameters of the public functions for 1-3 dimensions (every ordered choice of tensordot contraction axes; per-dimension {all, reversed, strided, reversed+strided, integer} indexing with a new axis at every position; all axis permutations, moveaxis pairs, flip/reduction axis subsets x keepdims, roll, arg-reductions, scans, diff, repeat, take, unstack, concat/stack/expand_dims positions, pad widths, tril/triu offsets, vecdot axes, ordered block selections through Array.blocks: 1032 cases; reshape splitting or merging dimensions of sizes 6-12 for every chunking), geometry drawn at random, each run optimised and unoptimised."
)
ASSUMPTIONS = [
    "NumPy 2.x evaluation of the recipe is the reference; candidates NumPy itself rejects are out of scope",
    "float results compared with dtype-scaled tolerance (exact for integer/bool results); qr/svd by reconstruction",
    "the processes executor is sampled on a subset of recipes because of its start-up cost",
]
NSHARDS = {"quick": 16, "thorough": 16}
PER_SHARD = {"quick": 110, "thorough": 700}


def shards(tier, seed):
    return [
        {"n": PER_SHARD[tier], "maxdim": 9 if tier == "quick" else 13, "depth": 4 if tier == "quick" else 7,
         "watchdog_s": TIMEOUT[tier] - 30, "sweep_of": 16 if tier == "quick" else 4}
        for _ in range(NSHARDS[tier])
    ]


def judge(recipe, np_vals, cfg, rec, res, wd):
    if rec["exc"] is not None or rec["results"] is None:
        return []
    diffs = runner.check_values(recipe, np_vals, rec)
    res["counters"]["outputs_compared"] += len(rec["results"])
    res["counters"]["elements_compared"] += int(sum(np.asarray(r).size for r in rec["results"]))
    if not diffs:
        return []
    try:
        loc = runner.localise(recipe, np_vals, cfg, os.path.join(wd, "loc"))
    except Exception as e:  # localisation is best-effort
        loc = {"error": repr(e)[:200]}
    return [
        {
            "kind": "value-mismatch",
            "msg": f"{_rc.cfg_name(cfg)}: {diffs[0]['diff']} (output node {diffs[0]['output']} op {diffs[0]['op']}); culprit={loc}",
            "facts": {"culprit": loc, "config": cfg, "diffs": diffs[:3], "ops": gen.recipe_ops(recipe)},
        }
    ]


EXTRA = ("outputs_compared", "elements_compared")


def run_shard(spec, workdir):
    return _rc.run_cases(spec, workdir, prop=PROPERTY, judge=judge, extra_counters=EXTRA)


def replay(rep, workdir):
    return _rc.replay_case(rep, workdir, prop=PROPERTY, judge=judge, extra_counters=EXTRA)


def finalize(tier, merged):
    c = merged["counters"]
    floor = 800 if tier == "quick" else 6000
    missing = sorted(set(optable.expected_ops()) - set(merged["hist"].get("ops", {})))
    return {
        "rule": RULE,
        "floors": [
            ("parameter-sweep cases run (of 1032 enumerated)", c.get("param_sweep_cases", 0), 850),
            ("outputs compared with NumPy", c.get("outputs_compared", 0), floor),
            ("distinct public functions exercised", len(merged["hist"].get("ops", {})), 100),
        ],
        "coverage_extra": {"functions_never_exercised_this_run": missing},
        "assumptions": ASSUMPTIONS,
    }
